#!/bin/sh
# tools_confirm_seeded.sh <worktree of the sub-agent> <name under /verif/seeded>
# Confirms a sub-agent's breaking change in a fresh scratch worktree (tests pass with it, demo fails
# with it and passes without it), then stores patch / demo / meta under /verif/seeded/<name>/.
set -u
SRC=$1; NAME=$2; PID=$(echo $NAME | cut -d- -f1)
CW=/tmp/cw/$NAME
rm -rf $CW; mkdir -p /tmp/cw
git -C /repo worktree add -q --detach $CW HEAD || exit 2
cd $CW
DEMO=$(ls $SRC/demo_*.py | head -1)
cp $DEMO $CW/demo.py
echo "== demo without the change"; PYTHONPATH=$CW/src /venv/bin/python demo.py > /tmp/cw/$NAME.clean.out 2>&1; RC_CLEAN=$?; tail -2 /tmp/cw/$NAME.clean.out
git apply $SRC/patch.diff || { echo "PATCH DOES NOT APPLY"; exit 2; }
echo "== demo with the change"; PYTHONPATH=$CW/src /venv/bin/python demo.py > /tmp/cw/$NAME.mut.out 2>&1; RC_MUT=$?; tail -3 /tmp/cw/$NAME.mut.out
echo "== test suite with the change"
PYTHONPATH=$CW/src /venv/bin/python -m pytest -q -p no:cacheprovider --timeout=900 tests > /tmp/cw/$NAME.tests.out 2>&1; RC_T=$?
tail -2 /tmp/cw/$NAME.tests.out
echo "rc_clean=$RC_CLEAN rc_mut=$RC_MUT rc_tests=$RC_T"
if [ $RC_CLEAN -eq 0 ] && [ $RC_MUT -ne 0 ] && [ $RC_T -eq 0 ]; then
  mkdir -p /verif/seeded/$NAME
  cp $SRC/patch.diff /verif/seeded/$NAME/patch.diff
  cp $DEMO /verif/seeded/$NAME/
  /venv/bin/python - "$SRC/meta.json" "/verif/seeded/$NAME/meta.json" "$PID" "$(tail -1 /tmp/cw/$NAME.tests.out)" <<'PY'
import json,sys
m=json.load(open(sys.argv[1]))
m["properties"]=[sys.argv[3]]
m["confirmed"]={"by":"main session in a fresh scratch worktree of /repo HEAD","demo_without_change_exit":0,"demo_with_change_exit":"non-zero","test_suite_with_change":sys.argv[4]}
json.dump(m,open(sys.argv[2],"w"),indent=1)
PY
  echo "KEPT /verif/seeded/$NAME"
else
  echo "REJECTED"
fi
cd /; git -C /repo worktree remove --force $CW
