#!/bin/sh
# nothing to build: verify the interpreter, the imports and that felupe resolves to /repo/src
set -e
cd "$(dirname "$0")"
exec /venv/bin/python -m fesim.cli setup
