"""Regenerate MANIFEST.json from the table below (single source of truth)."""
import json

NA = {
    "C04": "element shape functions are stateless closed-form polynomial tables: no schedule, clock, fault, I/O or history can influence them; a simulator would only be an input generator (pure function of its input)",
    "C05": "quadrature schemes are constant point/weight tables built once; pure function of (scheme, order, dim), nothing to schedule or fault",
    "C06": "a region is computed once from immutable mesh, element and quadrature and never mutated by the runtime; pure function of the mesh",
    "C08": "numbering and partitioning are pure index arithmetic on the current objects; the runtime-visible consequences (prescribed values honoured, ramped boundary values handed to Newton in order) are asserted inside C07 and C15",
    "C11": "objectivity / symmetry / stress-free reference are identities of the pure function F -> (P, A); no state, schedule or fault enters",
    "C12": "agreement of twin implementations is a pure differential statement over inputs; nothing to schedule or fault",
    "C13": "boundary regions are static index tables applied once to an immutable mesh; pure function of the mesh",
    "C14": "balance and resultant identities hold per state as pure functions of that state; the one history-dependent aspect (load resultants follow the ramp) is asserted under C15",
    "C16": "mesh generators and transformations are deterministic pure functions returning new meshes; sequences of them are compositions of pure functions without any fault or interleaving",
    "C19": "projection, extrapolation and stress post-processing are pure functions of their arguments; that job files contain the documented per-cell quantities is covered by C20",
}

CHECKS = {
    "C18": dict(
        text="Seeded search over operation histories of the modal analysis: evaluate(k, ncv) with the ARPACK start vector drawn from the run seed (the shipped default is OS entropy), extract(n, inplace), re-evaluate after in-place extraction, eigen-solver faults (ArpackNoConvergence / RuntimeError must propagate), a twin world on a rigidly moved mesh; over element families, densities, elastic constants, boundary dictionaries (none, clamped, partial, point sets), stiffness multipliers, mixed containers. Oracles: operators handed to the solver equal independently assembled K[dof1,dof1] / M[dof1,dof1]; every returned pair satisfies the eigen equation; returned eigenvalues lie in the dense spectrum; spectra agree across start vectors and under rigid motion; mode shapes are the eigenvector scattered to the free unknowns with frequency sqrt(lambda)/2pi. Sampling, not proof. One open known finding (singular constrained stiffness). Added since: 1-2 bodies with/without multipliers, density changed between evaluations, x0=, set-wise spectrum comparison (Lanczos may miss copies of repeated eigenvalues). Rounds 5-9: boundary dictionary changed (in place / replaced) between evaluations, zero-density stiffness-only items, Taylor-Hood (tri6 / tet10) mixed containers, renumbered meshes, unused points per field. Second open known finding (rank-deficient mass of linear simplex cells).",
        note="Trusted: scipy.linalg dense eigensolver and SVD as reference, numpy, the reference mass assembler. Real: FreeVibration, SolidBody.matrix/mass, dof.partition, ARPACK + SuperLU. Simulated: start vector, solver faults, operation history. The shift is fixed at 0 (evaluate(sigma=...) raises TypeError - observation).",
        technique="deterministic simulation: seeded random start vectors of a randomised eigen-solver, operation histories on shared mutable field state, solver fault injection, rigid-motion twin",
        ref="DESIGN.md section 7 (C18)",
    ),
    "C10": dict(
        text="Seeded search over load histories with twin worlds: (1) the stateful condensed nearly-incompressible body vs the explicit (u,p,J) formulation with cell-wise constant duals (3D, plane strain, axisymmetric; distorted meshes; bulk/shear 5..5000; exact and inexact solves) compared at every converged substep in u and at the settled end state in p and J, plus a restart that drops the condensed state; (2) the uniform-grid fast path as a flipped knob: same history with uniform=True/False, assembled vectors/matrices compared at identical iterates and all converged states compared. Sampled-only twins at the reached states: plane strain vs unit-thickness slab (forces and stiffness), axisymmetric forces vs central differences of the 2 pi R weighted energy. Sampling, not proof; convergence of the axisymmetric model to a revolved 3D model is not attempted. Added since: body re-created on the converged field, matrix after evaluate.*(field), Circle meshes, an unrelated FieldDual with an explicit option created earlier in the process, quad8/hex20 bodies. Rounds 5-9: one axisymmetric stress array used for several forms, dirty out= kinematics and overwritten handed-out kinematics arrays, a second model of the same shape alive in the process, rolled / renumbered cell numbering in the uniform-grid comparison.",
        note="Trusted: numpy/scipy, converged-state tolerance 2e-5 relative scaled with the Newton tolerance. Real: both formulations, regions, fields, assembly, Newton. Simulated: the twin histories, restart (state loss), solver inexactness, the uniform knob.",
        technique="deterministic simulation with twin worlds (refinement between condensed/explicit and fast-path/general formulations along identical histories), restart with state loss, inexact-solver faults",
        ref="DESIGN.md section 7 (C10)",
    ),
    "C09": dict(
        text="Seeded search over job histories of homogeneous problems: displacement patch tests (affine map on the whole boundary) and the uniaxial / biaxial load cases on every generated element family (hex 8/20/27, quad 4/8/9, tri 3/6, tet 4/10), mesh densities, interior distortion (curved edges in 2D), 3D and plane strain, nine hyperelastic material variants incl. the nearly-incompressible body, seeded ramp subdivisions (uniform, non-uniform, repeated, cyclic, load-unload), twin jobs with another subdivision, exact or inexact (1e-12..1e-3) linear solves. At every converged substep the displacement field is compared with the affine map, F with uniformity, job.x with the ramp, job.y with analytic P11*A0 from independently coded energy functions; recorded history must stay immutable. Sampling, not proof. Added since: load-case axis/axes, material curves over stretches 0.35..3, clamp released on the same Step object, CharacteristicCurve(items=), separate top-level x0 container. Rounds 5-9: job paused by the user's callback and evaluated again, earlier post-processing of another model in the process (prelude), patch boundaries created with a scalar and ramped from a (row- or column-major) table, ramp tables digested before / after the job.",
        note="Trusted: the analytic model in fesim/refmodel.py (energies coded from textbook forms, stresses by central differences of the energy, lateral stretch by bracketing root search), numpy/scipy. Real: Job/CharacteristicCurve/Step/Newton/regions/elements/materials. Simulated: solver inexactness, ramp subdivision histories. Tolerances are converged-state tolerances scaled with the Newton tolerance.",
        technique="deterministic simulation of load histories (ramp subdivisions, inexact solver faults, twin runs) against an analytic homogeneous-solution reference model",
        ref="DESIGN.md section 7 (C09)",
    ),
    "C03": dict(
        text="Seeded search over call histories of every constitutive object that constructs offline (hand-coded Neo-Hooke family, volumetric, linear-elastic large-strain, Ogden-Roxburgh hand-coded and tensortrax, small-strain plasticity, finite-strain viscoelasticity, 14 tensortrax hyperelastic models, composite, NearlyIncompressible and ThreeFieldVariation wrappers): a material-point machine drives trial(F) / commit / reject sequences along monotone, cyclic and random strain paths incl. rejected excursions; the same monitors sit between body and material inside FE job histories. At every call: elasticity blocks (all six for mixed formulations) vs central differences of the stress at the same committed state (kink rule, max-history band), stress vs central differences of the energy where exposed, inputs (committed state variables!) byte-identical afterwards, repeated call idempotent, dirty reused out= buffers without influence. Sampling, not proof. jax models are not exercised in the quick tier. Added since: NaN-dirty buffers, in-place updated input arrays with the elasticity requested first at a new state (compared with a fresh object), MaterialAD total/updated Lagrange, MORPH (open known finding: tangent inconsistent at stored states), linear-elastic variants, jax models (1 % quick / 20 % thorough). Rounds 5-9: poisoned (raising / NaN) calls between operations, mixed wrappers around stateful inner materials, heterogeneous batches (loading and unloading points in one call), parameter attributes re-assigned between operations, switch-at-state kink rule.",
        note="Trusted: FD oracle at 2e-6 relative (calibrated), numpy. Real: felupe.constitution, tensortrax. Simulated: the call history and buffer reuse protocol; FE runtime in job mode. For stateless models the derivative clause is input sampling (stated in evidence).",
        technique="deterministic simulation of constitutive call histories (trial/commit/reject, buffer reuse) with finite-difference and byte-digest monitors at every seam call",
        ref="DESIGN.md section 7 (C03)",
    ),
    "C01": dict(
        text="Seeded search over Newton histories of every item kind (solid bodies on 3D / plane-strain / axisymmetric / mixed fields, nearly-incompressible body, follower pressure, Cauchy-stress load, multi-point constraint and contact, point / body loads, form items; hyperelastic and history-dependent materials). At seeded iterations the exact K and -f Newton summed (multiplier, resize, link and cache protocol included) are taken at the solve= seam and K.d is compared with central differences of fun_items on cold forks at x +- h d (two step sizes; kink rule on the one-sided difference gap; step-size consistency rule), plus cache transparency (live == cold fork), symmetry of conservative items, the settled-state tangent of the condensed body, and the parallel knob under a simulated pool. Sampling, not proof. Added since: call-order (matrix first on a cold item incl. keyword arguments; matrix at a new state without a vector call), repeatability of felupe's own fun_items/jac_items at one state, and an independent statement of what Newton sums (sum of multiplier x item contribution) as reference. Rounds 5-9: switched-off items (multiplier 0.0), negative point indices of multi-point items on mixed containers, axisymmetric ring loads, vector-valued boundary ramps, renumbered / rolled meshes, process prelude, switch-at-state kink rule (neutral loading after plastic flow).",
        note="Trusted: finite-difference oracle with tolerance 2e-6 relative (calibrated 3 orders above the unchanged tree), fork builder, numpy/scipy. Real: all items, materials, assembly, Newton. Simulated: solver layer (inexact/scaled/flipped updates move the iterates to unusual states), einsumt pool.",
        technique="deterministic simulation of Newton histories; finite-difference refinement check on cold forks at the states and through the cache protocol the history produces",
        ref="DESIGN.md section 7 (C01)",
    ),
    "C17": dict(
        text="Seeded operation sequences over a shared array pool: every tensor routine with operands of dimension 1..3 and broadcast batch axes, out in {None, fresh, dirty buffer left by an earlier operation}, parallel in {False, True} under a simulated einsumt pool (size 1..33, seeded job order, failing job), sym / determinant / full_output / mode flags. Each variant must equal the plain call, the plain call must equal numpy.linalg per batch item, operands must be byte-identical afterwards, a failing pool job must raise. Sampling, not proof. Added since: non-symmetric eig/eigvals, linsteps/identity/ravel variants. Rounds 5-9: returned arrays overwritten by the caller before the call is repeated, repeated rotation angles, the Seth-Hill strain routine (C= / field / evaluate.*, tensor / principal values / Voigt), strided and Fortran-ordered out= buffers.",
        note="Trusted: numpy.linalg as definition. Real: felupe.math, einsumt chunking. Simulated: pool, buffer-reuse history. The 'equals its definition' clause for the plain variant is input sampling only (stated in evidence).",
        technique="deterministic simulation: seeded operation/buffer-reuse histories under a simulated thread pool with worker faults, reference = numpy.linalg",
        ref="DESIGN.md section 7 (C17)",
    ),
    "C02": dict(
        text="Seeded search over schedules: (a) IntegralForm (Cartesian, plane-strain, axisymmetric incl. hoop terms, mixed block modes 1/2/3, absent blocks, uniform-grid broadcast, out= reuse with dirty buffers, values= pass-through) with parallel=True under a simulated einsumt pool (size 1..33 as a knob, seeded job order, failing job); (b) Form(...) weak forms (value/gradient/hessian spaces, linear/bilinear/mixed, sym flag) with parallel=True under a simulated thread scheduler (real threads parked and released one at a time at sys.monitoring LINE/STORE_SUBSCR yield points; fifo, lifo, round-robin and seeded random schedules; joins only wait for the joined thread) and a failing worker thread. Every result is compared with an independent naive assembler, with parallel=False and with the equivalent array form; a failing worker must surface as an exception. Sampling of schedules, not proof; races inside NumPy C code are not explored. Added since: forms re-assembled after an in-place region reload, forms created one after the other on shared field objects, out= lists from a fully populated form, absent blocks on axisymmetric mixed fields, mixed fields on quadratic families. Open known finding: full block layout on axisymmetric mixed fields raises. Rounds 5-9: the same form assembled again after a worker failure, abort-class (BaseException) worker faults, geometry updated in place with a re-created leading field and kept dual fields, thread seam independent of the names of the worker functions.",
        note="Trusted: numpy einsum, the generalised-basis reference assembler in fesim/refmodel.py (region.h/dhdX/dV arrays are inputs to both sides), scipy.sparse. Real: all of felupe.assembly, einsumt chunking. Simulated: thread scheduling, einsumt pool.",
        technique="deterministic simulation: seeded thread-interleaving and pool-schedule search with worker fault injection, reference-model equality under every schedule",
        ref="DESIGN.md section 7 (C02)",
    ),
    "C07": dict(
        text="Seeded search over simulated Newton/Job histories: generated problems (mesh family, distortion, field kind, material, items, boundary dictionary incl. dual-field boundaries, ramps, tol/maxiter, x0 continuation) run under a fault layer on the linear-solver seam (raise, NaN/Inf, zero/flipped/scaled/stalled update, inexact solve), on the material (raise/NaN), on the callback, and with skewed clocks. Every returned result is re-checked on a cold fork (independent residual, prescribed values from an independent boundary model), every linear solve against the independently sliced reduced system, every failure against no-commit and raise-not-return. Sampling, not proof. Added since: newtonrhapson called directly with its default fun/jac, tools.solve, partition-once / solve-three-times with input digests, points without cells, superposed bodies with multipliers. Rounds 5-9: undocumented exceptions in fault-free runs are violations, unknowns selected by two ramped boundaries, multiplicity-independent reduced-system reference, switched-off items, vector-valued and column-major boundary values, ramp tables digested before / after the job.",
        note="Trusted: numpy/scipy (SuperLU) arithmetic, Boundary.dof index tables (C08 territory), the fork builder in fesim/world.py. Real code: all of felupe, SuperLU. Simulated: solver fault layer, clock, callbacks, material fault wrapper.",
        technique="deterministic simulation: seeded fault injection at the solver/material/callback/clock seams of the Newton runtime, cold-fork reference re-assembly",
        ref="DESIGN.md section 7 (C07)",
    ),
    "C15": dict(
        text="Seeded search over multi-step load histories (monotone, cyclic, repeated, non-uniform ramps on boundaries and on load items; 1-2 steps x 1-6 substeps) with faults F1-F6 at seeded (step, substep, iteration), x0 continuation, restart from durable state only (optionally dropping the condensed p/J state) and refined-ramp twins. Oracles: a Newton-protocol reference model (ramp value per substep, start state, converged prefix, commit only at convergence and exactly to the trial state) and reference history models (running maximum of an independently coded energy, yield function, monotone equivalent plastic strain). Sampling, not proof. Added since: retry-after-failure (failed substep, then continuation on the same objects from the last converged state must reproduce the fault-free history), Step re-evaluated after its boundary dictionary changed, second step on an item subset. Rounds 5-9: separate top-level x0 container (start state and x0 after the job), load items of the reference fork constructed at the ramp value instead of updated to it, axisymmetric and per-point (unsorted) point loads, per-field converged-state tolerance and a stability rule for path comparisons, ramp tables digested.",
        note="Trusted: numpy/scipy, region.dhdX/h arrays for the independent deformation gradient, fesim world builder. Real: felupe Step/Job/newtonrhapson/items/materials, SuperLU. Simulated: solver fault layer, callbacks, material fault wrapper, restart (process loss).",
        technique="deterministic simulation of load histories with fault injection, restart-from-durable-state and refinement twins against a Newton-protocol reference model",
        ref="DESIGN.md section 7 (C15)",
    ),
    "C20": dict(
        text="Seeded search over job histories written to XDMF/HDF5 in a private scratch directory (any steps/substeps, default and custom point/cell data, early stop by solver/material/callback/data-callable faults, disk faults at the h5py.File seam: n-th create_dataset fails, close fails) plus mesh write/read round trips for all generated cell types x vtk/vtu/xdmf, merged container reads and tools.save. Oracle: a file model built from the history the job callback saw (frame count, order, times, bitwise displacement, per-cell means recomputed independently). Sampling, not proof. Added since: disk-full seam on builtins.open (short write then ENOSPC) for Mesh.write / save / the XDMF XML, exact array-name sets per frame, overriding a default key, a second default-only job in the same run, default-dim / cellblock / single-block merged reads, extra data in save. Rounds 5-9: second job also after a failed job, mesh object history (copy / copy(points=) / update) and the save alias, empty data dictionaries, caller's dictionaries unchanged, save() with gradient= and the caller's projected tensors as point data.",
        note="Trusted: meshio readers, h5py/HDF5 (real file I/O), numpy eigh for the independent log-strain. Real: felupe Job/_write/Mesh.write/mesh.read/MeshContainer/save, meshio, HDF5. Simulated: h5py.File proxy for disk faults, solver fault layer, callbacks.",
        technique="deterministic simulation of job histories with disk/solver/callback fault injection, file model vs files re-read",
        ref="DESIGN.md section 7 (C20)",
    ),
}

def main():
    old = json.load(open("MANIFEST.json"))
    checks = []
    for pid, c in sorted(CHECKS.items()):
        checks.append({
            "property_id": pid,
            "quick_cmd": f"./check {pid} --tier quick",
            "thorough_cmd": f"./check {pid} --tier thorough",
            "evidence_file": f"evidence/{pid}.json",
            "replay_cmd_template": f"./check {pid} --replay {{path}}",
            "engine": "fesim",
            "level_claimed": {"category": "exploration", "text": c["text"], "design_ref": c["ref"]},
            "level_note": c["note"],
            "technique": c["technique"],
        })
    claimed = set(CHECKS)
    na = [{"property_id": k, "reason": v} for k, v in sorted(NA.items())]
    pending = [p for p in ["C01","C02","C03","C09","C10","C17","C18"] if p not in claimed]
    for p in pending:
        na.append({"property_id": p, "reason": "simulation target per DESIGN.md section 2, check not built yet at this commit (work in progress, will be claimed)"})
    m = {
        "version": 1,
        "setup_cmd": "./setup.sh",
        "hooks": old["hooks"],
        "engines": [{"name": "fesim", "path": "fesim/", "serves_properties": sorted(claimed), "kind_free_text": "purpose-built deterministic simulator for the felupe runtime: seeded scenario documents, simulated thread/pool schedulers, fault layers at solver / material / callback / clock / disk seams, reference models, structural minimiser, replay files"}],
        "checks": checks,
        "not_applicable": sorted(na, key=lambda x: x["property_id"]),
        "notes": "All checks: ./check <ID> --tier quick|thorough ; exit 0 held / 1 VIOLATION line / 2 harness error. VERIF_SEED selects the seed. Known findings: known_findings.json.",
    }
    json.dump(m, open("MANIFEST.json", "w"), indent=1)

main()
