"""C02 - integral forms assemble exactly the sums they denote, on every code path.

Simulated: (a) IntegralForm (Cartesian, plane strain, axisymmetric, mixed block modes 1/2/3,
absent blocks, uniform-grid broadcast, out= reuse, values= pass-through) with
parallel=True under SimPool (pool size knob x job order x failing job);
(b) Form(...) weak forms (linear, bilinear, mixed; symmetric and not; value / gradient /
hessian spaces) with parallel=True under SimThreads schedules (fifo, lifo, round-robin at
every yield, seeded random) and a failing worker thread.
Oracles: naive reference assembler (fesim/refmodel.py), schedule independence, form vs
array, worker fault must raise.
"""
import copy

import numpy as np

import felupe as fem

from .. import gen, refmodel, world
from ..apicall import call as api
from ..kernel import Discard, InjectedFault, SimWorkerError, Streams, Violation, adigest, close_exact_twin, pick
from ..sched import SimPool, SimThreads

PROP = "C02"

EVIDENCE = {
    "rule": "one evaluation = one scenario document (mesh, region flags, field kind, form, integrand seed, pool / thread schedules, fault); non-trivial = at least one parallel evaluation ran under a simulated pool with >1 job or under a thread schedule with >= 2 context switches, or a worker fault fired; distinct = distinct (field kind, form kind, flags, pool configuration or schedule digest)",
    "probes_expected": ["pool:njobs>1", "pool:fallback-np-einsum", "threads:switches", "fault:pool_job", "fault:thread_body", "uniform-broadcast", "absent-block", "out-reuse", "values-passthrough", "mode3", "hess-form", "form-after-region-reload", "shared-test-field-forms", "assembled-again-after-failure", "form-after-geometry-update", "same-form-evaluated-again"],
    "components": {
        "real": ["felupe.assembly (all of it)", "einsumt chunking logic", "numpy einsum", "scipy.sparse"],
        "simulated": ["einsumt thread pool (SimPool: size knob, seeded job order, failing job)", "threading.Thread in the expression API (SimThreads: baton passing at sys.monitoring LINE / STORE_SUBSCR events)"],
    },
    "assumptions": ["simulated threads run one at a time: NumPy calls are atomic blocks, races inside NumPy C code are not explored"],
}

FIELD_KINDS = ["Field", "Field", "PlaneStrain", "Axi", "Mixed3", "Mixed3ps", "Mixed3axi", "Scalar"]


def generate(seed, tier, k):
    S = Streams(seed)
    r = S["gen"]
    case = "form" if k % 2 else "array"
    fk = r.choice(FIELD_KINDS)
    if case == "form":
        fk = r.choice(["Field", "Field", "PlaneStrainAsField", "Mixed2", "Scalar"])
    dim = 3 if (fk in ("Field", "Mixed3", "Scalar", "Mixed2") and r.random() < (0.5 if case == "array" else 0.15)) else 2
    if fk in ("PlaneStrain", "Axi", "Mixed3ps", "Mixed3axi", "PlaneStrainAsField"):
        dim = 2
    allow = ("linear", "linear", "quadratic", "full", "simplex", "simplex2") if not fk.startswith("Mixed") else ("linear", "linear", "quadratic", "full", "simplex2")
    if case == "form":
        allow = ("linear", "linear", "simplex") if dim == 2 else ("simplex", "linear")
        if fk.startswith("Mixed"):
            allow = ("linear", "quadratic") if dim == 2 else ("linear",)
    big = case == "form" and gen.kpick(seed, "big-form", 16) == 0
    if big:
        # one quadratic hexahedron with a vector field: 60 x 60 (81 x 81) pairs of basis functions,
        # i.e. thousands of worker threads in the threaded Form path
        fk, dim, allow = "Field", 3, (r.choice(["quadratic", "quadratic", "full"]),)
    mesh = gen.gen_mesh(r, dim=dim, allow=allow, max_cells=6 if case == "array" else (4 if dim == 2 else 1))
    if fk in ("Axi", "Mixed3axi") and gen.kpick(seed, "axi-nano", 3) == 0:
        # an axisymmetric model of nanometre size described in metres: radii of 1e-9
        mesh["a"] = [v * 1e-9 for v in mesh["a"]]
        mesh["b"] = [v * 1e-9 for v in mesh["b"]]
    doc = {"kind": "c02", "seed": seed, "mesh": mesh, "fieldkind": fk, "case": case, "region": {}}
    uniform_ok = not mesh.get("perturb") and not mesh.get("convert")
    if uniform_ok and r.random() < 0.4:
        doc["region"]["uniform"] = True
    if case == "array":
        form = r.choice(["linear", "bilinear", "bilinear"])
        a = {"form": form, "fun_seed": r.randrange(1 << 30)}
        if fk.startswith("Mixed"):
            a["mode"] = 1 if form == "linear" else r.choice([2, 2, 3])
            if fk == "Mixed3axi" and a["mode"] == 3 and r.random() < 0.9:
                a["mode"] = 2
            nblocks = {1: 3, 2: 6, 3: 9}[a["mode"]]
            a["absent"] = sorted(r.sample(range(nblocks), r.choice([0, 0, 1, 2])))
            a["block"] = r.random() < 0.8
        elif fk == "Axi":
            a["grad_v"] = True
            a["grad_u"] = True
        else:
            a["grad_v"] = r.random() < 0.6
            a["grad_u"] = r.random() < 0.6
        a["broadcast"] = bool(doc["region"].get("uniform")) and r.random() < 0.3
        a["out_reuse"] = r.random() < 0.3 and fk != "Axi" and not fk.endswith("axi")
        a["values_passthrough"] = r.random() < 0.2
        a["pools"] = []
        for _ in range(r.choice([2, 3, 4])):
            p = {"n": r.choice([1, 2, 3, 4, 5, 7, 8, 16, 33]), "order": r.choice(["shuffle", "shuffle", "lazy", "reverse", "fifo"]), "seed": r.randrange(1 << 30)}
            a["pools"].append(p)
        if r.random() < 0.25:
            a["pools"][-1]["fail"] = r.randrange(0, 4)
        # history: the geometry is updated in place, the leading field is created anew on the
        # reloaded region, the other field objects of the container are kept
        # integrands far from order one (another unit system)
        a["mag"] = r.choice([1.0, 1.0, 1.0, 1e-12, 1e-9, 1e6])
        a["geometry_update"] = r.random() < (0.5 if fk.endswith("axi") else (0.9 if doc["region"].get("uniform") else 0.2))
        a["geometry_seed"] = r.randrange(1 << 30)
        doc["array"] = a
    else:
        kinds = ["gradgrad", "gradgrad", "valval", "gradval", "lin-grad", "lin-val"]
        if fk == "Mixed2":
            kinds = ["mixed-up", "mixed-up", "mixed-lin"]
        elif not mesh.get("convert") and not doc["region"].get("uniform") and fk in ("Field", "Scalar"):
            kinds.append("hess")
        kind = r.choice(kinds)
        f = {"kind": kind, "coef_seed": r.randrange(1 << 30), "symmetric": r.random() < 0.6}
        f["sym_flag"] = f["symmetric"] and kind in ("gradgrad", "valval", "mixed-up", "hess") and r.random() < 0.6
        nsched = 3 if tier == "quick" else 6
        sch = [{"policy": "fifo"}, {"policy": "lifo"}, {"policy": "rr"}]
        for _ in range(nsched):
            sch.append({"policy": "random", "seed": r.randrange(1 << 30)})
        if big:
            f["big"] = True
            kind = r.choice(["gradgrad", "valval", "gradval"])
            f["kind"] = kind
            f["sym_flag"] = f["symmetric"] and kind in ("gradgrad", "valval") and f["sym_flag"]
            sch = [{"policy": "lifo"}, {"policy": "fifo"}, {"policy": "random", "seed": r.randrange(1 << 30)}, {"policy": "random", "seed": r.randrange(1 << 30)}]
        f["schedules"] = sch
        f["basis_parallel"] = r.random() < 0.3
        # history on one Form object: the region is reloaded in place (mesh.update + region.reload)
        # and the same form is assembled again with the same field container
        f["reload"] = r.random() < (0.8 if doc["region"].get("uniform") else 0.3) and fk != "Mixed2"
        f["reload_seed"] = r.randrange(1 << 30)
        if r.random() < 0.2:
            f["fail_call"] = r.randrange(0, 6)
        doc["form"] = f
    return doc


# ----------------------------------------------------------------------------------------
def build_fields(doc):
    mesh = world.build_mesh(doc["mesh"])
    spec = dict(doc.get("region", {}))
    fk = doc["fieldkind"]
    hess = doc.get("form", {}).get("kind") == "hess"
    name = world.REGION_BY_CELLTYPE[mesh.cell_type]
    kw = {}
    if spec.get("uniform"):
        kw["uniform"] = True
    if hess:
        kw["hess"] = True
    import warnings

    with warnings.catch_warnings():
        warnings.simplefilter("ignore")
        region = getattr(fem, name)(mesh, **kw)
    if np.any(region.dV <= 0):
        raise Discard("invalid-mesh")
    d = mesh.dim
    # integer-typed point values (`values=0` instead of `0.0`): what a linear / bilinear form
    # integrates does not depend on the point values at all
    vkw = {"values": 0} if pick(doc.get("seed", 0), "int-values", 4) == 0 else {}
    if fk in ("Field", "PlaneStrainAsField"):
        f = fem.FieldContainer([fem.Field(region, dim=d, **vkw)])
    elif fk == "Scalar":
        f = fem.FieldContainer([fem.Field(region, dim=1, **vkw)])
    elif fk == "PlaneStrain":
        f = fem.FieldContainer([fem.FieldPlaneStrain(region, dim=2)])
    elif fk == "Axi":
        f = fem.FieldContainer([fem.FieldAxisymmetric(region, dim=2)])
    elif fk == "Mixed3":
        f = fem.FieldsMixed(region, n=3)
    elif fk == "Mixed3ps":
        f = fem.FieldsMixed(region, n=3, planestrain=True)
    elif fk == "Mixed3axi":
        f = fem.FieldsMixed(region, n=3, axisymmetric=True)
    elif fk == "Mixed2":
        f = fem.FieldsMixed(region, n=2)
    else:
        raise ValueError(fk)
    return mesh, region, f


def tdim(field):
    return 3 if type(field).__name__ in ("FieldPlaneStrain", "FieldAxisymmetric") else field.dim


def block_shape(fv, gv, fu=None, gu=None):
    """Tensor shape of the integrand block for test field fv (and trial field fu)."""

    def one(f, g):
        t3 = type(f).__name__ in ("FieldPlaneStrain", "FieldAxisymmetric")
        if g:
            return (3, 3) if t3 else (f.dim, f.region.mesh.dim)
        if f.dim == 1:
            return ()
        # a plane-strain integrand is given in 3D and cut to its in-plane part
        return (3,) if type(f).__name__ == "FieldPlaneStrain" else (f.dim,)

    s = one(fv, gv)
    if fu is not None:
        s = s + one(fu, gu)
    return s


def postprocess_look(region, seed):
    """Post-processing between two computations that works with the region's own element and
    quadrature objects (extrapolation of quadrature-point values to the points builds a temporary
    region from them; plotting, copying) - nothing the region gives out afterwards may differ."""
    if seed % 2:
        return False
    vals = np.ones((region.quadrature.npoints, region.mesh.ncells))
    try:
        fem.tools.extrapolate(vals, region, mean=not hasattr(region.quadrature, "inv"))
    except (AttributeError, NotImplementedError, ValueError, TypeError):
        pass  # the helper refuses this element / quadrature combination
    world.look_at_region(region)
    return True



# ----------------------------------------------------------------------------------------
def run_array(doc, log):
    a = doc["array"]
    mesh, region, field = build_fields(doc)
    fields = field.fields
    nf = len(fields)
    rng = np.random.default_rng(a["fun_seed"])
    nq, nc = region.dV.shape[0], mesh.ncells
    trail = (nq, 1) if a.get("broadcast") else (nq, nc)
    if a.get("broadcast"):
        log.count("uniform-broadcast")
    grad_v = [True] + [False] * (nf - 1) if nf > 1 else [bool(a.get("grad_v", True))]
    grad_u = [True] + [False] * (nf - 1) if nf > 1 else [bool(a.get("grad_u", True))]
    bil = a["form"] == "bilinear"
    if not bil:
        pairs = [(i, None) for i in range(nf)]
    elif nf == 1:
        pairs = [(0, 0)]
    elif a["mode"] == 2:
        pairs = list(zip(*np.triu_indices(nf)))
    else:
        pairs = [(i, j) for i in range(nf) for j in range(nf)]
    funs = []
    for n, (i, j) in enumerate(pairs):
        if n in a.get("absent", []):
            funs.append(None)
            log.count("absent-block")
            continue
        shp = block_shape(fields[i], grad_v[i], fields[j] if bil else None, grad_u[j] if bil else None)
        funs.append(rng.normal(size=shp + trail) * float(a.get("mag", 1.0)))
    if bil and nf > 1 and a["mode"] == 3:
        log.count("mode3")
    kw = {}
    if nf == 1:
        kw["grad_v"] = grad_v
        if bil:
            kw["grad_u"] = grad_u

    def make():
        return fem.IntegralForm([None if f is None else f.copy() for f in funs], field, region.dV, u=field if bil else None, **kw)

    # reference ---------------------------------------------------------------------------
    if bil:
        ref = refmodel.assemble_bilinear(fields, fields, region.dV, funs, grad_v, grad_u, [(int(i), int(j)) for i, j in pairs], symmetric_fill=(nf > 1 and a["mode"] == 2))
    else:
        ref = refmodel.assemble_linear(fields, region.dV, funs, grad_v)
    scale = float(np.abs(ref).max()) + 1e-300

    def dense(res):
        if isinstance(res, list):
            # block=False: list of sparse blocks in pair order
            if bil:
                off = refmodel.offsets(fields)
                K = np.zeros((off[-1], off[-1]))
                for (i, j), blk in zip(pairs, res):
                    K[off[i] : off[i + 1], off[j] : off[j + 1]] += blk.toarray()
                    if a["mode"] == 2 and i != j:
                        K[off[j] : off[j + 1], off[i] : off[i + 1]] += blk.toarray().T
                return K
            return np.concatenate([b.toarray()[:, 0] for b in res])
        d = res.toarray()
        return d if bil else d[:, 0]

    def compare(name, got, site):
        ok, rel = close_exact_twin(got, ref, rtol=1e-11, atol=1e-12 * scale)
        if not ok:
            raise Violation(PROP, name, f"{site}: assembled result differs from the defining sum (rel {rel:.2e}, shape {got.shape})", site=site)

    block = a.get("block", True) if nf > 1 else True
    site0 = f"IntegralForm.assemble[{doc['fieldkind']},{a['form']},mode={a.get('mode')},parallel=False]"
    try:
        serial = dense(make().assemble(parallel=False, block=block))
    except Exception as e:
        from ..kernel import origin

        if origin(e) == "harness":
            raise
        raise Violation(PROP, "ref-sum", f"{site0} raised {type(e).__name__}: {e}", site=site0)
    compare("ref-sum", serial, site0)
    log.ev("serial", d=serial)
    # history on one form object: integrate() (the caller owns and post-processes the returned
    # arrays), then assemble() twice, then the integrand arrays are updated in place by a power of
    # two (exact) and the form is assembled once more -- every call gives the sum of *its* inputs
    own = [None if f is None else f.copy() for f in funs]
    form = fem.IntegralForm(own, field, region.dV, u=field if bil else None, **kw)
    site1 = f"IntegralForm[{doc['fieldkind']},{a['form']},mode={a.get('mode')},same-object]"
    try:
        looked = form.integrate(parallel=False)
        for v in looked:
            if isinstance(v, np.ndarray) and v.flags.writeable:
                v += 7.0
        second = dense(form.assemble(parallel=False, block=block))
        third = dense(form.assemble(parallel=bool(a["fun_seed"] % 2), block=block))
        for f in own:
            if f is not None:
                f *= 2.0
        fourth = dense(form.assemble(parallel=False, block=block))
    except Exception as e:
        from ..kernel import origin

        if origin(e) == "harness":
            raise
        raise Violation(PROP, "ref-sum", f"{site1} raised {type(e).__name__}: {e}", site=site1)
    compare("ref-sum", second, site1 + ".assemble-after-integrate")
    compare("ref-sum", third, site1 + ".second-assemble")
    # (a form may read its integrand when it is evaluated - felupe does - or keep the values it was
    # created with: either is "the defining sum of the integrand array"; anything else is not)
    # (axisymmetric forms split the integrand into in-plane and hoop parts when they are created -
    # some parts are views, some are copies: an in-place update then has no defined meaning and is
    # not judged there)
    ok2, rel2 = close_exact_twin(fourth / 2.0, ref, rtol=1e-11, atol=1e-12 * scale)
    ok1, rel1 = close_exact_twin(fourth, ref, rtol=1e-11, atol=1e-12 * scale)
    if "axi" in doc["fieldkind"].lower():
        ok1 = True
    if not (ok1 or ok2):
        raise Violation(PROP, "ref-sum", f"{site1}.integrand-updated-in-place: assembled result is neither the sum of the updated nor of the original integrand (rel {min(rel1, rel2):.2e})", site=site1 + ".integrand-updated-in-place")
    log.count("integrand-read-at-evaluation" if ok2 else "integrand-kept-from-construction")
    log.count("same-form-evaluated-again")
    sig = []
    fired = []
    for p in a["pools"]:
        S = Streams(p["seed"])
        fail = [p["fail"]] if "fail" in p else []
        pool = SimPool(processes=p["n"], rng=S["sched"], order=p["order"], fail_jobs=fail)
        form = make()
        exc = None
        with pool:
            try:
                if a.get("values_passthrough"):
                    vals = form.integrate(parallel=True)
                    res = form.assemble(values=vals, block=block)
                    log.count("values-passthrough")
                elif a.get("out_reuse"):
                    # dirty, correctly shaped buffers from a previous integrate() call
                    # buffers of an earlier evaluation - of a form in which every block was present
                    fprev = [f if f is not None else rng.normal(size=block_shape(fields[i], grad_v[i], fields[j] if bil else None, grad_u[j] if bil else None) + trail) for f, (i, j) in zip(funs, pairs)]
                    prev = fem.IntegralForm(fprev, field, region.dV, u=field if bil else None, **kw)
                    out = prev.integrate(parallel=False)
                    for o in out:
                        if o is not None:
                            o += 17.0
                    out2 = form.integrate(parallel=True, out=out)
                    res = form.assemble(values=out2, block=block)
                    log.count("out-reuse")
                else:
                    res = form.assemble(parallel=True, block=block)
            except BaseException as e:
                exc = e
        log.ev("pool", n=p["n"], order=p["order"], njobs=pool.njobs, exc=None if exc is None else type(exc).__name__)
        if pool.njobs > 1:
            log.count("pool:njobs>1")
        if pool.njobs == 0:
            log.count("pool:fallback-np-einsum")
        sig.append((p["n"], pool.njobs, p["order"]))
        if pool.fired:
            fired.append("pool_job")
            log.count("fault:pool_job")
            if exc is None:
                got = dense(res)
                ok, rel = close_exact_twin(got, ref, rtol=1e-11, atol=1e-12 * scale)
                raise Violation(PROP, "worker-fault", f"a pool job failed but assemble(parallel=True) returned normally ({'correct' if ok else 'WRONG'} result)", site="IntegralForm.assemble.parallel", fault="pool_job")
            if not isinstance(exc, SimWorkerError):
                raise Violation(PROP, "worker-fault", f"pool failure surfaced as {type(exc).__name__}: {exc}", site="IntegralForm.assemble.parallel", fault="pool_job")
            # after the failure the same form object, with a healthy pool, gives the sum
            with SimPool(processes=p["n"], rng=Streams(p["seed"] + 1)["sched"], order=p["order"]):
                again = dense(form.assemble(parallel=True, block=block))
            compare("ref-sum", again, f"IntegralForm.assemble[{doc['fieldkind']},{a['form']},after-worker-failure]")
            log.count("assembled-again-after-failure")
            continue
        if exc is not None:
            raise Violation(PROP, "schedule-independence", f"parallel assembly raised {type(exc).__name__}: {exc} (pool size {p['n']}, order {p['order']})", site="IntegralForm.assemble.parallel")
        got = dense(res)
        compare("ref-sum", got, f"IntegralForm.assemble[{doc['fieldkind']},{a['form']},parallel=True]")
        ok, rel = close_exact_twin(got, serial, rtol=1e-11, atol=1e-12 * scale)
        if not ok:
            raise Violation(PROP, "schedule-independence", f"parallel result (pool size {p['n']}) differs from the serial one (rel {rel:.2e})", site="IntegralForm.assemble.parallel")
        log.count("array-parallel-compared")
    # the same test field with two different trial fields of equal shape but different connectivity
    # (forms created one after the other on shared field objects)
    if doc["fieldkind"] in ("Mixed3", "Mixed3ps") and mesh.cell_type in ("quad9", "hexahedron27", "triangle6", "tetra10"):
        vcont = fem.FieldContainer([fields[0]])
        for disc in (False, True, False):
            dual = fem.FieldDual(region, disconnect=disc)
            ucont = fem.FieldContainer([dual])
            shp = block_shape(fields[0], True, dual, False)
            fun = rng.normal(size=shp + (nq, nc))
            got = fem.IntegralForm([fun], vcont, region.dV, u=ucont, grad_v=[True], grad_u=[False]).assemble().toarray()
            ref2 = refmodel.assemble_bilinear([fields[0]], [dual], region.dV, [fun], [True], [False], [(0, 0)])
            ok, rel = close_exact_twin(got, ref2, rtol=1e-11, atol=1e-12 * (float(np.abs(ref2).max()) + 1e-300))
            if not ok:
                raise Violation(PROP, "ref-sum", f"rectangular (u, dual) form with a {'disconnected' if disc else 'connected'} trial field, created after other forms on the same test field, differs from the defining sum (rel {rel:.2e})", site="IntegralForm.assemble[shared-test-field]")
        log.count("shared-test-field-forms")
    if a.get("geometry_update") and not a.get("broadcast"):
        prng = np.random.default_rng(a["geometry_seed"])
        span = mesh.points.max(0) - mesh.points.min(0)
        newp = mesh.points * (1.0 + 0.3 * prng.uniform(0.2, 1.0)) + 0.04 * span.min() / max(doc["mesh"]["n"]) * prng.uniform(-1, 1, mesh.points.shape)
        if doc["fieldkind"] in ("Axi", "Mixed3axi"):
            onaxis = np.abs(mesh.points[:, 1]) < 1e-12
            newp[onaxis, 1] = 0.0
        if postprocess_look(region, a["geometry_seed"]):
            log.count("postprocessing-before-reload")
        mesh.update(points=newp, callback=region.reload)
        if np.any(region.dV <= 0):
            raise Discard("invalid-mesh-after-reload")
        check_reloaded_region(region, mesh, log)
        f0 = fields[0]
        new0 = type(f0)(region, dim=f0.dim, values=f0.values.copy())
        cont2 = fem.FieldContainer([new0, *fields[1:]])
        fl2 = cont2.fields
        if bil:
            ref2 = refmodel.assemble_bilinear(fl2, fl2, region.dV, funs, grad_v, grad_u, [(int(i), int(j)) for i, j in pairs], symmetric_fill=(nf > 1 and a["mode"] == 2))
        else:
            ref2 = refmodel.assemble_linear(fl2, region.dV, funs, grad_v)
        site2 = f"IntegralForm.assemble[{doc['fieldkind']},{a['form']},mode={a.get('mode')},after-geometry-update]"
        try:
            got2 = dense(fem.IntegralForm([None if f is None else f.copy() for f in funs], cont2, region.dV, u=cont2 if bil else None, **kw).assemble(parallel=False, block=block))
        except Exception as e:
            from ..kernel import origin

            if origin(e) == "harness":
                raise
            raise Violation(PROP, "ref-sum", f"{site2} raised {type(e).__name__}: {e}", site=site2)
        ok, rel = close_exact_twin(got2, ref2, rtol=1e-11, atol=1e-12 * (float(np.abs(ref2).max()) + 1e-300))
        if not ok:
            raise Violation(PROP, "ref-sum", f"{site2}: a form on a container made of a new leading field (reloaded region) and the kept other fields differs from the defining sum on the new geometry (rel {rel:.2e})", site=site2)
        log.count("form-after-geometry-update")
    return {
        "signature": f"array|{doc['fieldkind']}|{a['form']}|{a.get('mode')}|{a.get('grad_v')}{a.get('grad_u')}|{mesh.cell_type}|u{int(bool(doc['region'].get('uniform')))}b{int(bool(a.get('broadcast')))}|{sorted(set(sig))}|{a.get('absent')}|o{int(bool(a.get('out_reuse')))}v{int(bool(a.get('values_passthrough')))}",
        "nontrivial": any(s[1] > 1 for s in sig) or bool(fired),
        "faults_fired": fired,
        "sim": {"pool_jobs": sum(s[1] for s in sig), "pool_configs": len(sig)},
    }


# ----------------------------------------------------------------------------------------
# weak forms (their code objects get LINE yield points)

def check_reloaded_region(region, mesh, log, kw=None):
    """A region reloaded in place on a changed mesh (reload() called as a callback, without repeating
    the construction options) holds the arrays of a newly created region on that mesh. A region that
    was created for a uniform grid evaluates all cells again after the reload (the documented
    default uniform=None -> False)."""
    import warnings

    with warnings.catch_warnings():
        warnings.simplefilter("ignore")
        fresh = type(region)(mesh, **(kw or {}))
    for name in ("dV", "dhdX", "h"):
        a, b_ = getattr(region, name, None), getattr(fresh, name, None)
        if a is None or b_ is None:
            continue
        a, b_ = np.asarray(a), np.asarray(b_)
        if a.shape != b_.shape or not np.allclose(a, b_, rtol=1e-12, atol=1e-14 * (float(np.abs(b_).max()) + 1e-300)):
            raise Violation(PROP, "ref-sum", f"region reloaded in place: {name} has shape {a.shape}, a region created on the same mesh has {b_.shape}" + ("" if a.shape != b_.shape else " and other values"), site=f"Region.reload.{name}")
    log.count("reloaded-region-compared")

# ----------------------------------------------------------------------------------------
class CallCounter:
    def __init__(self, fail_call=None, fail_kind="error"):
        self.n = 0
        self.fail_call = fail_call
        self.fail_kind = fail_kind
        self.fired = False

    def tick(self):
        n = self.n
        self.n += 1
        if self.fail_call is not None and n == self.fail_call:
            self.fired = True
            if self.fail_kind == "abort":
                from ..kernel import SimAbort

                raise SimAbort("injected: abort hook fired in weak form")
            if self.fail_kind == "kbint":
                e = KeyboardInterrupt("injected")
                e._fesim_injected = True
                raise e
            raise SimWorkerError("injected: allocation failed in weak form")


def wf_gradgrad(C, cc):
    def weakform(v, u, **kwargs):
        cc.tick()
        gv = v.grad
        gu = u.grad
        t = np.einsum("iJkLqc,kLqc->iJqc", C, gu)
        return np.einsum("iJqc,iJqc->qc", gv, t)

    return weakform


def wf_valval(M, cc):
    def weakform(v, u, **kwargs):
        cc.tick()
        t = np.einsum("ikqc,kqc->iqc", M, u)
        return np.einsum("iqc,iqc->qc", v, t)

    return weakform


def wf_gradval(D, cc):
    def weakform(v, u, **kwargs):
        cc.tick()
        gv = v.grad
        t = np.einsum("iJkqc,kqc->iJqc", D, u)
        return np.einsum("iJqc,iJqc->qc", gv, t)

    return weakform


def wf_hess(T, cc):
    def weakform(v, u, **kwargs):
        cc.tick()
        hv = v.hess
        hu = u.hess
        t = np.einsum("iJKkLMqc,kLMqc->iJKqc", T, hu)
        return np.einsum("iJKqc,iJKqc->qc", hv, t)

    return weakform


def wf_lin_grad(S_, cc):
    def weakform(v, **kwargs):
        cc.tick()
        gv = v.grad
        return np.einsum("iJqc,iJqc->qc", gv, S_)

    return weakform


def wf_lin_val(b, cc):
    def weakform(v, **kwargs):
        cc.tick()
        return np.einsum("iqc,iqc->qc", v, b)

    return weakform


def wf_up(B, cc):
    # (u, p) coupling block:  grad(v) : B * q
    def weakform(v, u, **kwargs):
        cc.tick()
        gv = v.grad
        t = np.einsum("iJqc,iJqc->qc", gv, B)
        return t * u[0]

    return weakform


def wf_pp(m, cc):
    def weakform(v, u, **kwargs):
        cc.tick()
        return m * v[0] * u[0]

    return weakform


def wf_lin_p(g, cc):
    def weakform(v, **kwargs):
        cc.tick()
        return g * v[0]

    return weakform


def run_form(doc, log):
    f = doc["form"]
    mesh, region, field = build_fields(doc)
    fields = field.fields
    d = fields[0].dim
    nd = mesh.dim
    nq, nc = region.dV.shape[0], mesh.ncells
    rng = np.random.default_rng(f["coef_seed"])
    kind = f["kind"]
    cc = CallCounter()
    bil = True
    pairs = [(0, 0)]
    grad_v = [True]
    grad_u = [True]

    def symm(A, axes):
        return 0.5 * (A + np.transpose(A, axes))

    if kind == "gradgrad":
        C = rng.normal(size=(d, nd, d, nd, nq, nc))
        if f["symmetric"]:
            C = symm(C, (2, 3, 0, 1, 4, 5))
        mk = lambda c: [wf_gradgrad(C, c)]
        funs = [C]
    elif kind == "valval":
        M = rng.normal(size=(d, d, nq, nc))
        if f["symmetric"]:
            M = symm(M, (1, 0, 2, 3))
        mk = lambda c: [wf_valval(M, c)]
        funs = [M if d > 1 else M[0, 0]]
        grad_v = grad_u = [False]
    elif kind == "gradval":
        D = rng.normal(size=(d, nd, d, nq, nc))
        mk = lambda c: [wf_gradval(D, c)]
        funs = [D if d > 1 else D[:, :, 0]]
        grad_u = [False]
    elif kind == "hess":
        T = rng.normal(size=(d, nd, nd, d, nd, nd, nq, nc))
        if f["symmetric"]:
            T = symm(T, (3, 4, 5, 0, 1, 2, 6, 7))
        mk = lambda c: [wf_hess(T, c)]
        funs = None
        log.count("hess-form")
    elif kind == "lin-grad":
        S_ = rng.normal(size=(d, nd, nq, nc))
        mk = lambda c: [wf_lin_grad(S_, c)]
        funs = [S_]
        bil = False
    elif kind == "lin-val":
        b = rng.normal(size=(d, nq, nc))
        mk = lambda c: [wf_lin_val(b, c)]
        funs = [b if d > 1 else b[0]]
        bil = False
        grad_v = [False]
    elif kind == "mixed-up":
        C = rng.normal(size=(d, nd, d, nd, nq, nc))
        C = symm(C, (2, 3, 0, 1, 4, 5))
        B = rng.normal(size=(d, nd, nq, nc))
        m = rng.normal(size=(nq, nc))
        mk = lambda c: [wf_gradgrad(C, c), wf_up(B, c), wf_pp(m, c)]
        funs = [C, B, m]
        pairs = [(0, 0), (0, 1), (1, 1)]
        grad_v = grad_u = [True, False]
    elif kind == "mixed-lin":
        S_ = rng.normal(size=(d, nd, nq, nc))
        g = rng.normal(size=(nq, nc))
        mk = lambda c: [wf_lin_grad(S_, c), wf_lin_p(g, c)]
        funs = [S_, g]
        bil = False
        grad_v = [True, False]
    else:
        raise ValueError(kind)

    def reference():
        if funs is not None:
            if bil:
                return refmodel.assemble_bilinear(fields, fields, region.dV, funs, grad_v, grad_u, pairs, symmetric_fill=len(fields) > 1)
            return refmodel.assemble_linear(fields, region.dV, funs, grad_v)
        H_ = region.d2hdXdX
        G_ = np.zeros((H_.shape[0], d, d, nd, nd, nq, nc))
        for i_ in range(d):
            G_[:, i_, i_] = H_
        val_ = np.einsum("aiIJKqc,IJKLMNqc,bkLMNqc,qc->caibk", G_, T, G_, region.dV)
        dofs_ = d * mesh.cells[:, :, None] + np.arange(d)[None, None, :]
        n_ = mesh.npoints * d
        ref_ = np.zeros((n_, n_))
        rr_ = np.broadcast_to(dofs_[:, :, :, None, None], val_.shape)
        cl_ = np.broadcast_to(dofs_[:, None, None, :, :], val_.shape)
        np.add.at(ref_, (rr_.ravel(), cl_.ravel()), val_.ravel())
        return ref_

    # reference -------------------------------------------------------------------------------
    if funs is not None:
        if bil:
            ref = refmodel.assemble_bilinear(fields, fields, region.dV, funs, grad_v, grad_u, pairs, symmetric_fill=len(fields) > 1)
        else:
            ref = refmodel.assemble_linear(fields, region.dV, funs, grad_v)
    else:
        # hessian space: G[a, i, I, J, K, q, c] = delta_iI d2h_a/dX_J dX_K
        H = region.d2hdXdX
        na = H.shape[0]
        G = np.zeros((na, d, d, nd, nd, nq, nc))
        for i in range(d):
            G[:, i, i] = H
        val = np.einsum("aiIJKqc,IJKLMNqc,bkLMNqc,qc->caibk", G, T, G, region.dV)
        cells = mesh.cells
        dofs = d * cells[:, :, None] + np.arange(d)[None, None, :]
        n = mesh.npoints * d
        ref = np.zeros((n, n))
        rr = np.broadcast_to(dofs[:, :, :, None, None], val.shape)
        cl = np.broadcast_to(dofs[:, None, None, :, :], val.shape)
        np.add.at(ref, (rr.ravel(), cl.ravel()), val.ravel())
    scale = float(np.abs(ref).max()) + 1e-300

    def dense(res):
        dd = res.toarray()
        return dd if bil else dd[:, 0]

    # keyword arguments of the weak forms handed over at construction: every weak form carries a
    # factor alpha / A with the default alpha = 1 - the forms only equal their definition if the
    # dictionary {"alpha": A} really arrives
    A_ = 1.0 + 0.25 * (1 + pick(doc["seed"], "form-alpha", 3))
    form_kwargs = {"alpha": A_}

    def with_alpha(wf):
        def weakform(*a, alpha=1.0, **kw):
            return wf(*a, **kw) * (alpha / A_)

        return weakform

    def build(c, parallel_basis=False):
        wfs = mk(c)
        wrapped = [with_alpha(w_) for w_ in wfs]

        def weakforms():
            return wrapped

        # fem.Form called by keyword or positionally in the documented order (v, u, dx, kwargs, parallel);
        # the weak forms have defaults for their extra parameters, the values arrive through `kwargs`
        frm = api("Form", fem.Form, doc["seed"], field, u=field if bil else None, kwargs=dict(form_kwargs), parallel=parallel_basis)(weakforms)
        return frm, wfs

    sym_flag = bool(f.get("sym_flag")) and bil
    akw = {"sym": sym_flag} if bil else {}
    # serial --------------------------------------------------------------------------------------
    frm, _ = build(CallCounter())
    serial = dense(frm.assemble(parallel=False, **akw))
    site_s = f"Form.assemble[{kind},sym={sym_flag},parallel=False]"
    ok, rel = close_exact_twin(serial, ref, rtol=1e-11, atol=1e-12 * scale)
    if not ok:
        raise Violation(PROP, "form-vs-array", f"{site_s}: weak form does not assemble to the equivalent array form / defining sum (rel {rel:.2e})", site=site_s)
    if funs is not None and len(fields) == 1:
        kw = {"grad_v": grad_v}
        if bil:
            kw["grad_u"] = grad_u
        arr = dense(fem.IntegralForm(funs, field, region.dV, u=field if bil else None, **kw).assemble())
        ok, rel = close_exact_twin(serial, arr, rtol=1e-11, atol=1e-12 * scale)
        if not ok:
            raise Violation(PROP, "form-vs-array", f"{site_s}: differs from IntegralForm of the equivalent integrand array (rel {rel:.2e})", site=site_s)
    log.ev("serial", d=serial)
    # call-time keyword arguments on the same Form object: other values, then an empty dictionary
    # (back to the defaults of the weak forms, alpha = 1) - every call evaluates the weak form with
    # the arguments of *that* call
    for label, kw_call, factor in (("kwargs={'alpha': 2A}", {"alpha": 2.0 * A_}, 2.0), ("kwargs={}", {}, 1.0 / A_)):
        got_kw = dense(frm.assemble(parallel=False, kwargs=kw_call, **akw))
        ok, rel = close_exact_twin(got_kw, factor * ref, rtol=1e-11, atol=1e-12 * scale)
        if not ok:
            raise Violation(PROP, "form-vs-array", f"Form.assemble({label}) after other keyword arguments does not evaluate the weak form with the arguments of this call (rel {rel:.2e})", site=f"Form.assemble[{kind},call-kwargs]")
    log.count("form-call-kwargs-history")
    # schedules -----------------------------------------------------------------------------------
    digests = set()
    switches = 0
    fired = []
    nthreads = 0
    for sidx, sc in enumerate(f["schedules"]):
        fail_call = f.get("fail_call") if sidx == len(f["schedules"]) - 1 else None
        c = CallCounter(fail_call, fail_kind=("error", "abort", "kbint")[f.get("fail_call", 0) % 3 if f.get("coef_seed", 0) % 2 else 0])
        pool = SimPool(processes=3, rng=Streams(f["coef_seed"])["pool"], order="shuffle") if f.get("basis_parallel") else None
        if pool is not None:
            with pool:
                frm, wfs = build(c, parallel_basis=True)
        else:
            frm, wfs = build(c)
        rng_s = Streams(sc.get("seed", 0))["sched"]
        coarse = {"inline": True, "instruction_events": False} if f.get("big") else {}
        sim = SimThreads(policy=sc["policy"], rng=rng_s, extra_codes=[w.__code__ for w in wfs], **coarse)
        exc = None
        with sim:
            try:
                res = frm.assemble(parallel=True, **akw)
            except BaseException as e:
                exc = e
        if sim.error:
            raise RuntimeError(sim.error)
        tdig = adigest(np.asarray(sim.trace, dtype=np.int64))
        digests.add(tdig)
        switches += sim.switches
        nthreads = max(nthreads, sim.max_threads)
        log.ev("schedule", policy=sc["policy"], threads=sim.max_threads, switches=sim.switches, yields=sim.nyields, trace=tdig, exc=None if exc is None else type(exc).__name__, swallowed=len(sim.exceptions))
        log.count("threads:switches", sim.switches)
        log.count("threads:yields", sim.nyields)
        site_p = f"Form.assemble[{kind},sym={sym_flag},parallel=True]"
        if c.fired:
            fired.append("thread_body")
            log.count("fault:thread_body")
            if exc is None:
                got = dense(res)
                ok, rel = close_exact_twin(got, ref, rtol=1e-11, atol=1e-12 * scale)
                raise Violation(
                    PROP,
                    "worker-fault",
                    f"a worker thread raised {type(sim.exceptions[0][1]).__name__ if sim.exceptions else '?'} but assemble(parallel=True) returned normally with a {'correct' if ok else 'WRONG'} result (rel {rel:.2e}); parallel=False raises",
                    site="Form.assemble.parallel",
                    fault="thread_body",
                )
            # after the failure the same Form object assembles the sum again (serially and threaded)
            c.fail_call = None
            got2 = dense(frm.assemble(parallel=False, **akw))
            ok, rel = close_exact_twin(got2, ref, rtol=1e-11, atol=1e-12 * scale)
            if not ok:
                raise Violation(PROP, "ref-sum", f"Form assembled again after a worker failure differs from the defining sum (rel {rel:.2e})", site=f"Form.assemble[{kind},after-worker-failure]", fault="thread_body")
            sim2 = SimThreads(policy="random", rng=Streams(f["coef_seed"] + 7)["sched"], extra_codes=[w_.__code__ for w_ in wfs], **coarse)
            with sim2:
                got3 = dense(frm.assemble(parallel=True, **akw))
            ok, rel = close_exact_twin(got3, ref, rtol=1e-11, atol=1e-12 * scale)
            if not ok or sim2.exceptions:
                raise Violation(PROP, "ref-sum", f"Form assembled again (threaded) after a worker failure differs from the defining sum (rel {rel:.2e})", site=f"Form.assemble[{kind},after-worker-failure]", fault="thread_body")
            log.count("assembled-again-after-failure")
            continue
        if exc is not None:
            raise Violation(PROP, "schedule-independence", f"{site_p} raised {type(exc).__name__}: {exc} under schedule {sc}", site=site_p)
        if sim.exceptions:
            e = sim.exceptions[0][1]
            raise Violation(PROP, "schedule-independence", f"{site_p}: {len(sim.exceptions)} worker threads died with {type(e).__name__}: {e} and the call returned normally", site=site_p)
        got = dense(res)
        ok, rel = close_exact_twin(got, ref, rtol=1e-11, atol=1e-12 * scale)
        if not ok:
            raise Violation(PROP, "ref-sum", f"{site_p} under schedule {sc}: result differs from the defining sum (rel {rel:.2e})", site=site_p)
        ok, rel = close_exact_twin(got, serial, rtol=1e-11, atol=1e-12 * scale)
        if not ok:
            raise Violation(PROP, "schedule-independence", f"{site_p} under schedule {sc}: differs from parallel=False (rel {rel:.2e})", site=site_p)
        log.count("form-schedule-compared")
    # history on the Form object: reload the region in place, assemble the same form again --------
    if f.get("reload"):
        frm, _ = build(CallCounter())
        first = dense(frm.assemble(parallel=False, **akw))
        prng = np.random.default_rng(f["reload_seed"])
        span = mesh.points.max(0) - mesh.points.min(0)
        newp = mesh.points + 0.04 * span.min() / max(doc["mesh"]["n"]) * prng.uniform(-1, 1, mesh.points.shape)
        if postprocess_look(region, f["reload_seed"]):
            log.count("postprocessing-before-reload")
        mesh.update(points=newp, callback=region.reload)
        if np.any(region.dV <= 0):
            raise Discard("invalid-mesh-after-reload")
        check_reloaded_region(region, mesh, log, {"hess": True} if f.get("kind") == "hess" else None)
        ref2 = reference()
        scale2 = float(np.abs(ref2).max()) + 1e-300
        again = dense(frm.assemble(v=field, **({"u": field} if bil else {}), parallel=False, **akw))
        ok, rel = close_exact_twin(again, ref2, rtol=1e-11, atol=1e-12 * scale2)
        if not ok:
            raise Violation(PROP, "form-vs-array", f"a Form assembled again after the region was reloaded in place does not give the sum for the new geometry (rel {rel:.2e})", site=f"Form.assemble[{kind},after-region-reload]")
        log.count("form-after-region-reload")
    return {
        "signature": f"form|{doc['fieldkind']}|{kind}|sym{int(f['symmetric'])}{int(sym_flag)}|{mesh.cell_type}|u{int(bool(doc['region'].get('uniform')))}|{sorted(digests)[:2]}|r{int(bool(f.get('reload')))}",
        "nontrivial": switches >= 2 or bool(fired),
        "faults_fired": fired,
        "sim": {"thread_schedules": len(f["schedules"]), "interleavings_distinct": len(digests), "context_switches": switches, "max_threads": nthreads},
    }


def run(doc, log):
    if doc["case"] == "array":
        return run_array(doc, log)
    return run_form(doc, log)


def shrink(doc):
    out = []

    def cand(fn):
        d = copy.deepcopy(doc)
        if fn(d) is not False:
            out.append(d)

    if doc["mesh"].get("perturb"):
        cand(lambda d: d["mesh"].pop("perturb"))
    if any(x > 2 for x in doc["mesh"].get("n", [])):
        cand(lambda d: d["mesh"].update(n=[2] * len(d["mesh"]["n"])))
    if doc["mesh"].get("convert"):
        cand(lambda d: d["mesh"].pop("convert"))
    if doc["case"] == "array":
        a = doc["array"]
        for i in range(len(a["pools"])):
            if len(a["pools"]) > 1:
                cand(lambda d, i=i: d["array"]["pools"].pop(i))
        for key in ("out_reuse", "values_passthrough", "broadcast"):
            if a.get(key):
                cand(lambda d, key=key: d["array"].update({key: False}))
        if a.get("absent"):
            cand(lambda d: d["array"].update(absent=[]))
        for p in range(len(a["pools"])):
            if a["pools"][p]["n"] > 2:
                cand(lambda d, p=p: d["array"]["pools"][p].update(n=2))
            if a["pools"][p]["order"] != "fifo":
                cand(lambda d, p=p: d["array"]["pools"][p].update(order="fifo"))
    else:
        f = doc["form"]
        for i in range(len(f["schedules"])):
            if len(f["schedules"]) > 1:
                cand(lambda d, i=i: d["form"]["schedules"].pop(i))
        for i, sc in enumerate(f["schedules"]):
            if sc["policy"] != "fifo":
                cand(lambda d, i=i: d["form"]["schedules"].__setitem__(i, {"policy": "fifo"}))
        if f.get("basis_parallel"):
            cand(lambda d: d["form"].update(basis_parallel=False))
        if f.get("sym_flag"):
            cand(lambda d: d["form"].update(sym_flag=False))
    if doc["region"].get("uniform"):
        cand(lambda d: (d["region"].pop("uniform"), d.get("array", {}).update(broadcast=False)))
    return out
