"""C18 - modal analysis returns genuine eigenpairs of the constrained K/M pencil.

Why simulation applies: with scipy >= 1.15 `eigsh(v0=None)` draws its start vector from OS
entropy - the shipped FreeVibration.evaluate() is a randomised algorithm and the property must
hold for every draw; `extract(inplace=True)` overwrites the very field the items assemble
from, so evaluate / extract / evaluate is a history; the eigen-solver can fail.

Simulated: operation sequences evaluate(k, ncv, v0 <- seed) / extract(n, inplace) / evaluate
over meshes, element families, densities, boundary dictionaries, mixed containers; twin world
on a rigidly moved mesh; SimEigsh = real ARPACK behind a seeded start vector and a fault layer.
"""
import copy

import numpy as np
from scipy.sparse.linalg import ArpackNoConvergence, eigsh

import felupe as fem

from .. import gen, refmodel, world
from ..apicall import call as api
from ..kernel import Discard, InjectedFault, SimSolverError, Streams, Violation, adigest, close_exact_twin, pick

PROP = "C18"

EVIDENCE = {
    "rule": "one evaluation = one simulated operation sequence (evaluate / extract / evaluate with seeded ARPACK start vectors, optional solver fault, optional rigidly moved twin) on one generated model; non-trivial = at least one eigen-solve returned pairs that were checked; distinct = distinct (mesh family, field kind, material, boundary kind, requested modes, operation sequence, start-vector seeds)",
    "probes_expected": ["eigenpairs-checked", "start-vectors-compared", "dense-reference-compared", "mode-shape-checked", "rigid-modes-counted", "rigid-twin-compared", "fault:eigsh", "inplace-extract-then-evaluate", "mixed-container", "operator-checked", "density-changed-between-evaluations", "boundaries-changed-between-evaluations", "multibody-toplevel-x0"],
    "components": {
        "real": ["felupe FreeVibration / SolidBody / assembly / dof.partition", "scipy ARPACK (eigsh, shift-invert with SuperLU)"],
        "simulated": ["ARPACK start vector (seeded, instead of OS entropy)", "eigen-solver fault layer", "operation history on the shared field"],
    },
    "assumptions": ["the shift is fixed at sigma=0: FreeVibration.evaluate(sigma=...) raises TypeError for any caller-supplied sigma (kwargs.get instead of pop), recorded as an observation in DESIGN.md"],
}


def generate(seed, tier, k):
    S = Streams(seed)
    r = S["gen"]
    if k % 9 == 8:
        # multi-body model: two bodies on sub-meshes that share the points, top-level field as x0
        dim_ = r.choice([2, 3])
        mesh_ = gen.gen_mesh(r, dim=dim_, allow=("linear",), max_cells=8 if dim_ == 3 else 12)
        if dim_ == 2 and mesh_["n"][0] * mesh_["n"][1] < 9:
            mesh_["n"] = [3, 3]
        if dim_ == 3 and (mesh_["n"][0] - 1) * (mesh_["n"][1] - 1) * (mesh_["n"][2] - 1) < 2:
            mesh_["n"] = [3, 2, 2]
        return {"kind": "c18mb", "seed": seed, "mesh": mesh_, "E": [gen.rfloat(r, 0.5, 10.0), gen.rfloat(r, 0.5, 10.0)], "nu": gen.rfloat(r, 0.0, 0.4), "density": [gen.rfloat(r, 0.5, 8.0), gen.rfloat(r, 0.5, 8.0)], "k": r.choice([2, 4, 6]), "v0_seed": r.randrange(1 << 30), "n": r.choice([0, 1, -1])}
    dim = r.choice([2, 3, 3])
    mixed = r.random() < 0.08
    fam = r.choice(["linear", "linear", "quadratic", "full", "simplex", "simplex2"]) if not mixed else r.choice(["linear", "simplex2"])
    mesh = gen.gen_mesh(r, dim=dim, allow=(fam,), max_cells=8 if dim == 3 else 12)
    if dim == 2 and mesh["n"][0] * mesh["n"][1] < 9:
        mesh["n"] = [3, 3]
    scale = r.choice([1.0, 1.0, 10.0, 50.0])
    mesh["b"] = [round(x * scale, 3) for x in mesh["b"]]
    E = gen.rfloat(r, 0.5, 10.0) * r.choice([1.0, 1e3])
    mat = r.choice(["LinearElasticLargeStrain", "LinearElasticLargeStrain", "NeoHooke", "NeoHookeCompressible"])
    if mixed:
        um = {"name": "ThreeField", "p": {"mu": round(E / 3, 4), "bulk": round(E * r.choice([5.0, 50.0]), 3)}}
    elif mat == "LinearElasticLargeStrain":
        um = {"name": mat, "p": {"E": E, "nu": gen.rfloat(r, 0.0, 0.4)}}
    elif mat == "NeoHooke":
        um = {"name": mat, "p": {"mu": round(E / 3, 4), "bulk": round(E * 2, 4)}}
    else:
        um = {"name": mat, "p": {"mu": round(E / 3, 4), "lmbda": round(E, 4)}}
    density = gen.rfloat(r, 0.5, 8.0) * r.choice([1.0, 1e-9])
    doc = {"kind": "c18", "seed": seed, "mesh": mesh, "field": {"kind": "Mixed3" if mixed else ("Field" if dim == 3 else r.choice(["PlaneStrain", "Field2D"]))}, "items": [{"type": "SolidBody", "umat": um, "density": density}]}
    if r.random() < 0.2:
        doc["items"][0]["multiplier"] = r.choice([0.5, 2.0, 3.0])
    if not mixed and r.random() < 0.3:
        # a second body on the same field (superposed material), with or without its own multiplier
        E2 = gen.rfloat(r, 0.5, 10.0)
        it2 = {"type": "SolidBody", "umat": {"name": "NeoHookeCompressible", "p": {"mu": round(E2 / 3, 4), "lmbda": round(E2, 4)}}, "density": gen.rfloat(r, 0.5, 8.0) * (1e-9 if density < 1e-6 else 1.0)}
        if r.random() < 0.4:
            it2["multiplier"] = r.choice([0.25, 2.0])
        if r.random() < 0.25:
            it2["density"] = 0.0  # a stiffness-only reinforcement on the same field
        doc["items"].append(it2)
        if r.random() < 0.5:
            doc["items"].reverse()
    if not mixed and gen.kpick(seed, "nearly-incompressible-item", 5) == 0:
        # a rubber part: the condensed nearly-incompressible body (its own mass assembly) as first item
        it0 = doc["items"][0]
        doc["items"][0] = {"type": "SolidBodyNearlyIncompressible", "umat": {"name": "NeoHooke", "p": {"mu": round(E / 3, 4)}}, "bulk": round(E * 8, 4), "density": it0["density"]}
    bc = r.choice(["none", "none", "clamp", "clamp", "partial", "points"])
    if bc == "none":
        doc["bc"] = {"case": "none"}
    elif bc == "clamp":
        doc["bc"] = {"case": "custom", "list": [{"name": "fix", "fx": "min", "value": 0.0}]}
    elif bc == "partial":
        doc["bc"] = {"case": "custom", "list": [{"name": "fix", "fx": "min", "skip": [False] + [r.random() < 0.5 for _ in range(dim - 1)], "value": 0.0}, {"name": "fix2", "fy": "max", "skip": [True, False] + ([True] if dim == 3 else []), "value": 0.0}]}
    else:
        doc["bc"] = {"case": "custom", "list": [{"name": "fix", "points": {"axis": 0, "at": "min", "first": 3}, "value": 0.0}]}
    if not mixed and not mesh.get("extra_point") and gen.kpick(seed, "orphan-point", 5) == 0:
        # a point that belongs to no cell (left-over of a removed part): its unknowns are taken out of
        # the free unknowns - with and without boundaries
        mesh["orphan_point"] = [round(c_ * f_, 4) for c_, f_ in zip(mesh["b"], (0.37, 0.41, 0.53))]
    if mixed and bc in ("partial", "clamp") and gen.kpick(seed, "dual-boundary", 2) == 0:
        # a support on a dual field as well (the pressure of one cell held at zero); the world puts
        # it at a seed-derived place of the boundary dictionary (first / between / last)
        doc["bc"]["extra"] = [{"name": "dualfix", "field": 1, "points": [0], "value": 0.0}]
    ops = []
    nops = r.choice([2, 3, 4, 5])
    for i in range(nops):
        if i > 0 and r.random() < 0.15:
            # study of the supports on the same analysis object: an entry of the boundary
            # dictionary is added, removed, or the dictionary is replaced
            lst = [{"name": "fix", "fx": "min", "value": 0.0}, {"name": "right", "fx": "max", "value": 0.0}, {"name": "top", "fy": "max", "skip": [True, False] + ([True] if dim == 3 else []), "value": 0.0}]
            ops.append({"op": "bc", "how": r.choice(["update", "update", "replace"]), "list": r.sample(lst, r.choice([1, 2, 2, 3]))})
        elif i > 0 and r.random() < 0.15:
            # parameter study on the same analysis object: the density of an item is changed
            ops.append({"op": "density", "item": r.randrange(len(doc["items"])), "factor": r.choice([0.25, 2.0, 4.0])})
        elif i == 0 or r.random() < 0.6:
            ops.append({"op": "evaluate", "k": r.choice([1, 2, 3, 6, 6, 8, 10]), "v0_seed": r.randrange(1 << 30), "ncv": r.choice([None, None, 20, 30]), "parallel": False, "x0": r.random() < 0.2})
        else:
            ops.append({"op": "extract", "n": r.choice([0, 0, 1, -1, 2]), "inplace": r.random() < 0.5, "x0": r.random() < 0.2})
    if not mixed and mat != "LinearElasticLargeStrain" and all(i_["type"] == "SolidBody" for i_ in doc["items"]) and gen.kpick(seed, "preload", 5) == 0:
        # modal analysis about a strongly pre-compressed state (not necessarily a stable one: the
        # tangent may be indefinite, the pencil then has negative eigenvalues - they are pairs like the others)
        ops.insert(0, {"op": "preload", "stretch": (0.5, 0.6, 1.6)[gen.kpick(seed, "preload-stretch", 3)]})
    doc["ops"] = ops
    doc["twin"] = r.random() < 0.3 and bc in ("none", "clamp", "points") and not mixed
    if doc["twin"]:
        doc["rigid"] = {"angle": round(r.uniform(-170, 170), 2), "axis": r.randrange(3) if dim == 3 else 2, "shift": [round(r.uniform(-3, 3), 3) for _ in range(3)]}
    if r.random() < 0.15:
        doc["fault"] = {"kind": r.choice(["arpack_noconv", "runtime"]), "call": r.randrange(0, 2)}
    return doc


# ----------------------------------------------------------------------------------------
class SimEigsh:
    def __init__(self, log, fault=None):
        self.log = log
        self.fault = fault
        self.calls = 0
        self.records = []
        self.v0_seed = 0
        self.fired = False

    def __call__(self, A, M=None, sigma=None, **kwargs):
        n = self.calls
        self.calls += 1
        rec = {"A": A.copy(), "M": None if M is None else M.copy(), "sigma": sigma, "kwargs": dict(kwargs)}
        self.records.append(rec)
        if self.fault is not None and self.fault["call"] == n and not self.fired:
            self.fired = True
            self.log.ev("fault", kind="eigsh_" + self.fault["kind"], call=n)
            self.log.count("fault:eigsh")
            if self.fault["kind"] == "arpack_noconv":
                e = ArpackNoConvergence("injected: ARPACK error -1: No convergence", np.zeros(0), np.zeros((A.shape[0], 0)))
                e._fesim_injected = True
                raise e
            raise SimSolverError("injected: factor is exactly singular")
        kw = dict(kwargs)
        if kw.get("v0") is None:
            rng = np.random.default_rng(self.v0_seed)
            kw["v0"] = rng.uniform(-1, 1, A.shape[0])
        try:
            vals, vecs = eigsh(A=A, M=M, sigma=sigma, **kw)
        except Exception as e:
            e._fesim_real = True
            raise
        # a user-supplied solver need not return its pairs in ascending order (a dense solver, highest
        # mode first, ...): the pairs stay pairs
        order = getattr(self, "order", "ascending")
        if order == "descending":
            vals, vecs = vals[::-1].copy(), vecs[:, ::-1].copy()
        elif order == "rotated" and len(vals) > 2:
            vals, vecs = np.roll(vals, 1), np.roll(vecs, 1, axis=1)
        return vals, vecs


def build(doc, rigid=None):
    d = copy.deepcopy(doc)
    if d["field"]["kind"] == "Field2D":
        d["field"]["kind"] = "Field"
    if rigid is not None:
        d["mesh"]["rigid"] = rigid
    w = world.World({**d, "steps": []})
    return w


def independent_operators(doc, w, fixed_points=None):
    """K, M, dof1 from independent ingredients: cold item matrix, reference mass assembly,
    index arithmetic for the free unknowns."""
    fields = w.field.fields
    n = int(sum(f.values.size for f in fields))
    f0 = fields[0]
    d = f0.dim
    K = np.zeros((n, n))
    M = np.zeros((n, n))
    plain = fem.Field(w.region, dim=d)
    for spec, item in zip(doc["items"], w.items):
        Ki = item.assemble.matrix().toarray() * spec.get("multiplier", 1.0)
        K[: Ki.shape[0], : Ki.shape[1]] += Ki
        rho = spec["density"]
        eye = np.eye(d).reshape(d, d, 1, 1) if d > 1 else np.ones((1, 1))
        fun = rho * (np.broadcast_to(eye, (d, d) + w.region.dV.shape) if d > 1 else np.ones(w.region.dV.shape))
        # the mass form uses the plain (cartesian) volume element of the first field
        M0 = refmodel.assemble_bilinear([plain], [plain], w.region.dV, [fun], [False], [False], [(0, 0)])
        M[: M0.shape[0], : M0.shape[1]] += M0
    pres = world.expected_prescribed_from(w, w.boundaries)
    fixed = set(pres.keys())
    # points without cells are prescribed as well, per field (the dual fields of a Taylor-Hood
    # container live on a mesh of the corner points: with an unusual numbering some of its
    # points carry no cell)
    off = 0
    for f in fields:
        mk = f.region.mesh
        used = np.zeros(mk.npoints, dtype=bool)
        used[mk.cells.ravel()] = True
        for p in np.arange(mk.npoints)[~used]:
            for c in range(f.dim):
                fixed.add(off + f.dim * int(p) + c)
        off += f.values.size
    dof1 = np.array([i for i in range(n) if i not in fixed], dtype=int)
    return K, M, dof1


def check_pairs(doc, log, rec, vals, vecs, K11, M11, site):
    if vecs.shape[0] != K11.shape[0] or len(vals) != vecs.shape[1]:
        raise Violation(PROP, "eigen-residual", f"eigenvector array of shape {vecs.shape} for {K11.shape[0]} free unknowns / {len(vals)} eigenvalues", site=site)
    Kn = float(np.abs(K11).max())
    for i in range(len(vals)):
        v = vecs[:, i]
        res = K11 @ v - vals[i] * (M11 @ v)
        lim = 1e-7 * (Kn * np.linalg.norm(v) * np.sqrt(len(v)))
        if not np.all(np.isfinite(res)) or np.linalg.norm(res) > lim + 1e-300:
            raise Violation(PROP, "eigen-residual", f"returned pair {i} (lambda = {vals[i]:.6e}) does not satisfy K v = lambda M v on the free unknowns: residual {np.linalg.norm(res):.3e} > {lim:.3e}", site=site)
    log.count("eigenpairs-checked", len(vals))


def run_multibody(doc, log):
    """Documented multi-body layout: items on sub-meshes, boundaries and x0 on the top-level field."""
    m = world.build_mesh(doc["mesh"])
    half = m.ncells // 2
    if half < 1:
        raise Discard("single-cell-mesh")
    subs = [fem.Mesh(m.points, m.cells[:half], m.cell_type), fem.Mesh(m.points, m.cells[half:], m.cell_type)]
    import warnings

    with warnings.catch_warnings():
        warnings.simplefilter("ignore")
        regions = [world.build_region(s_) for s_ in subs]
        rtop = world.build_region(m)
    d = m.dim
    mk = (lambda rg: fem.FieldPlaneStrain(rg, dim=2)) if d == 2 else (lambda rg: fem.Field(rg, dim=3))
    fields = [fem.FieldContainer([mk(rg)]) for rg in regions]
    top = fem.FieldContainer([mk(rtop)])
    bounds = {"fix": fem.Boundary(top[0], fx=float(m.points[:, 0].min()))}
    solids = [fem.SolidBody(fem.LinearElasticLargeStrain(E=doc["E"][i], nu=doc["nu"]), fields[i], density=doc["density"][i]) for i in range(2)]
    job = fem.FreeVibration(solids, bounds)
    sim = SimEigsh(log)
    sim.v0_seed = doc["v0_seed"]
    n = m.npoints * d
    K = np.zeros((n, n))
    M = np.zeros((n, n))
    eye = np.eye(d).reshape(d, d, 1, 1)
    for i in range(2):
        cold = fem.SolidBody(fem.LinearElasticLargeStrain(E=doc["E"][i], nu=doc["nu"]), fem.FieldContainer([mk(regions[i])]))
        K += cold.assemble.matrix().toarray()
        plain = fem.Field(regions[i], dim=d)
        fun = doc["density"][i] * np.broadcast_to(eye, (d, d) + regions[i].dV.shape)
        M += refmodel.assemble_bilinear([plain], [plain], regions[i].dV, [fun], [False], [False], [(0, 0)])
    fixed = set(int(v) for v in bounds["fix"].dof)
    dof1 = np.array([i for i in range(n) if i not in fixed], dtype=int)
    nk = min(doc["k"], len(dof1) - 2)
    if nk < 1:
        raise Discard("too-few-free-unknowns")
    try:
        job.evaluate(x0=top, solver=sim, k=nk)
    except RuntimeError as e:
        if "singular" in str(e).lower():
            raise Discard("singular-shift")
        raise
    rec = sim.records[-1]
    K11, M11 = K[np.ix_(dof1, dof1)], M[np.ix_(dof1, dof1)]
    if rec["A"].shape != K11.shape or not np.array_equal(np.sort(job.dof1), dof1):
        raise Violation(PROP, "operator-handed-over", f"multi-body model: free unknowns of the analysis ({len(job.dof1)}) differ from the unknowns of the top-level field not selected by any boundary ({len(dof1)})", site="FreeVibration.dof1.multibody")
    for nm, A_, B_ in (("stiffness", rec["A"].toarray(), K11), ("mass", rec["M"].toarray(), M11)):
        ok, rel = close_exact_twin(A_, B_, rtol=1e-10, atol=1e-12 * float(np.abs(B_).max()))
        if not ok:
            raise Violation(PROP, "operator-handed-over", f"multi-body model: {nm} handed to the eigen-solver is not the sum over the bodies on the free unknowns (rel {rel:.2e})", site=f"FreeVibration.{nm}.multibody")
    vals, vecs = np.asarray(job.eigenvalues), np.asarray(job.eigenvectors)
    check_pairs(doc, log, rec, vals, vecs, K11, M11, "FreeVibration.evaluate[multibody]")
    nn = doc["n"] if -len(vals) <= doc["n"] < len(vals) else 0
    field, freq = job.extract(n=nn, x0=top, inplace=False)
    full = np.zeros(n)
    full[dof1] = vecs[:, nn]
    if not np.array_equal(field[0].values.ravel(), full):
        raise Violation(PROP, "mode-shape", "multi-body model: extracted mode shape is not the eigenvector scattered to the free unknowns of the top-level field", site="FreeVibration.extract.multibody")
    log.count("multibody-toplevel-x0")
    return {"signature": f"multibody|{m.cell_type}|{nk}", "nontrivial": True, "faults_fired": [], "sim": {"eigen_solves": sim.calls, "operations": 2}}


def run(doc, log):
    if doc.get("kind") == "c18mb":
        return run_multibody(doc, log)
    doc0 = doc
    w = build(doc)
    if pick(doc["seed"], "empty-dict", 3) == 0 and w.boundaries:
        # the job is created with the caller's (still empty) dictionary, which is filled afterwards
        filled = dict(w.boundaries)
        shared = fem.BoundaryDict() if pick(doc["seed"], "dict-kind", 2) else {}
        job = fem.FreeVibration(w.items, shared)
        shared.update(filled)
        w.boundaries = shared
        log.count("boundaries-filled-after-construction")
    else:
        job = fem.FreeVibration(w.items, w.boundaries)
    bounds0 = dict(w.boundaries)
    if all(i_["type"] == "SolidBody" for i_ in doc["items"]) and pick(doc["seed"], "column-major-values", 4) == 0:
        # the value arrays of the fields as a caller may hand them over (values=A.T, restored from a
        # file column by column): column-major memory layout
        for f_ in w.field.fields:
            f_.values = np.asfortranarray(f_.values)
        log.count("column-major-field-values")
    sim = SimEigsh(log, doc.get("fault"))
    sim.order = ("ascending", "ascending", "descending", "rotated")[pick(doc["seed"], "solver-order", 4)]
    K, M, dof1 = independent_operators(doc, w)
    if len(dof1) < 12:
        raise Discard("too-few-free-unknowns")
    mixed = doc["field"]["kind"] == "Mixed3"
    if mixed:
        log.count("mixed-container")
    linear = all(i["umat"]["name"] == "LinearElasticLargeStrain" for i in doc["items"])
    spectra = []
    evaluated = False
    sig = []
    dim = w.mesh.dim
    K11 = M11 = None
    regular_first = False
    lam_char = 1.0
    for k, op in enumerate(doc["ops"]):
        if op["op"] == "evaluate":
            nk = min(op["k"], len(dof1) - 2)
            kw = {"k": nk}
            if op.get("ncv"):
                kw["ncv"] = min(max(op["ncv"], 2 * nk + 1), len(dof1) - 1)
            sim.v0_seed = op["v0_seed"]
            # the field may have been overwritten by an in-place extract: operators of *this* state
            K, M, dof1 = independent_operators(doc, build_like(doc, w))
            K11 = K[np.ix_(dof1, dof1)]
            M11 = M[np.ix_(dof1, dof1)]
            ncalls = sim.calls
            try:
                if op.get("x0"):
                    kw["x0"] = w.field
                api("FreeVibration.evaluate", job.evaluate, doc["seed"] + k, solver=sim, **kw)
            except BaseException as e:
                from ..kernel import origin

                if origin(e) == "injected":
                    log.ev("evaluate-raised", k=k, exc=type(e).__name__)
                    sig.append("F")
                    continue
                if origin(e) == "harness":
                    raise
                # whatever the eigen-solver made of it: the free unknowns of the analysis are set before
                got1 = getattr(job, "dof1", None)
                if got1 is not None and not np.array_equal(np.sort(np.asarray(got1)), dof1):
                    raise Violation(PROP, "operator-handed-over", f"free unknowns of the analysis ({len(got1)}) differ from the unknowns not selected by any boundary and not belonging to a point without cells ({len(dof1)}); evaluate raised {type(e).__name__}: {e}", site="FreeVibration.dof1")
                if isinstance(e, RuntimeError) and "singular" in str(e).lower():
                    raise Discard("singular-shift")
                from scipy.sparse.linalg import ArpackError

                if isinstance(e, ArpackError):
                    raise Discard("arpack-error")
                raise Violation(PROP, "failure-propagates", f"evaluate raised {type(e).__name__}: {e}", site="FreeVibration.evaluate")
            if sim.fired and sim.calls == ncalls + 1 and doc.get("fault", {}).get("call") == ncalls:
                raise Violation(PROP, "failure-propagates", "the eigen-solver failed but evaluate() returned normally", site="FreeVibration.evaluate", fault="eigsh")
            rec = sim.records[-1]
            # operator handed over == independently assembled and sliced
            A = rec["A"].toarray()
            Mh = rec["M"].toarray()
            if A.shape != K11.shape or not np.array_equal(np.sort(job.dof1), dof1):
                raise Violation(PROP, "operator-handed-over", f"free unknowns of the analysis ({len(job.dof1)}) differ from the unknowns not selected by any boundary ({len(dof1)})", site="FreeVibration.dof1")
            ok, rel = close_exact_twin(A, K11, rtol=1e-10, atol=1e-12 * float(np.abs(K11).max()))
            if not ok:
                raise Violation(PROP, "operator-handed-over", f"stiffness handed to the eigen-solver is not K[dof1, dof1] as assembled from the items (rel {rel:.2e})", site="FreeVibration.K")
            ok, rel = close_exact_twin(Mh, M11, rtol=1e-10, atol=1e-12 * float(np.abs(M11).max()))
            if not ok:
                raise Violation(PROP, "operator-handed-over", f"mass handed to the eigen-solver is not M[dof1, dof1] (density * integral of N_a N_b) (rel {rel:.2e})", site="FreeVibration.M")
            log.count("operator-checked")
            vals = np.asarray(job.eigenvalues)
            vecs = np.asarray(job.eigenvectors)
            if not np.all(np.isfinite(vals)):
                raise Discard("nonfinite-eigenvalues")
            unconstrained = doc["bc"]["case"] == "none"
            with np.errstate(all="ignore"):
                mass_singular = bool(mixed or not np.isfinite(np.linalg.cond(M11)) or np.linalg.cond(M11) > 1e10)
            with np.errstate(all="ignore"):
                sv = np.linalg.svd(K11, compute_uv=False)
                k_singular = bool(sv[-1] <= 1e-10 * sv[0])
            # rank-deficient mass of the displacement unknowns themselves (linear simplex cells with
            # the default one-point rule), not merely massless dual unknowns
            nu_ = w.field.fields[0].values.size
            du_ = np.flatnonzero(dof1 < nu_)
            with np.errstate(all="ignore"):
                Muu = M11[np.ix_(du_, du_)]
                cu = np.linalg.cond(Muu) if Muu.size else 1.0
                mass_u_singular = bool(not np.isfinite(cu) or cu > 1e10)
            cls = "singular-stiffness" if k_singular else ("singular-mass" if mass_u_singular else "regular-stiffness")
            if cls == "regular-stiffness" and len(du_) < len(dof1):
                # free unknowns of dual fields (pressure, volume ratio) carry no mass: the mass matrix of
                # the pencil is singular although every displacement unknown has mass (third open known
                # finding: one returned vector can carry a component of the null space of M)
                cls = "massless-dual-unknowns"
            if cls in ("singular-stiffness", "singular-mass"):
                # the two open known findings: what shift-invert ARPACK returns for a singular operator is
                # not even reproducible run to run with the same start vector (seen: 1 of 4 fresh
                # interpreters differs); the determinism self-check compares only the event digests then
                log.count("numerics:singular-operator")
            check_pairs(doc, log, rec, vals, vecs, K11, M11, f"FreeVibration.evaluate[{cls}]")
            lam_char = float(np.abs(K11).max()) / max(float(np.abs(M11).max()), 1e-300)
            lam_scale = None
            if not mass_singular:
                import scipy.linalg

                try:
                    wd = scipy.linalg.eigh(K11, M11, eigvals_only=True)
                    lam_scale = float(np.abs(wd).max())
                    # every returned eigenvalue must be an eigenvalue of the pencil (a Lanczos
                    # method may miss copies of a repeated eigenvalue, which the property allows)
                    dist = np.abs(vals[:, None] - wd[None, :]).min(axis=1)
                    if dist.max() > 1e-6 * float(np.abs(vals).max()) + 1e-9 * lam_scale:
                        raise Violation(PROP, "eigen-residual", f"returned eigenvalue {vals[dist.argmax()]:.8e} is not in the spectrum of the constrained pencil (distance {dist.max():.3e})", site=f"FreeVibration.evaluate[{cls}]")
                    log.count("dense-reference-compared")
                except scipy.linalg.LinAlgError:
                    pass
                except np.linalg.LinAlgError:
                    pass
            if unconstrained and linear and nk > (3 if dim == 2 else 6):
                nrig = int(np.sum(np.abs(vals) <= 1e-8 * lam_char))
                want = 3 if dim == 2 else 6
                if nrig != want:
                    raise Violation(PROP, "rigid-modes", f"unconstrained body has {nrig} zero-frequency modes among the {nk} returned, expected {want} (|lambda| <= 1e-8 lambda_max)", site=f"FreeVibration.evaluate[{cls}]")
                log.count("rigid-modes-counted")
            regular_first = regular_first if spectra else (not mass_singular and not k_singular)
            spectra.append((k, np.sort(vals), nk, adigest(np.concatenate([f.values.ravel() for f in w.field.fields] + [np.array([i["density"] for i in doc["items"]])])) + repr(doc["bc"]), cls))
            evaluated = True
            sig.append(f"E{nk}")
        elif op["op"] == "bc":
            doc = copy.deepcopy(doc) if doc is doc0 else doc
            doc["bc"] = {"case": "custom", "list": op["list"]}
            newb = w._build_bc(doc["bc"])[0]  # on the job's own field (boundaries match fields by identity)
            if op["how"] == "replace":
                job.boundaries = dict(newb)
            else:  # the caller's dictionary is edited in place
                job.boundaries.clear()
                job.boundaries.update(newb)
            w.boundaries = job.boundaries
            K, M, dof1 = independent_operators(doc, build_like(doc, w))
            if len(dof1) < 12:
                raise Discard("too-few-free-unknowns")
            evaluated = False  # stored eigenvectors belong to the former supports
            log.count("boundaries-changed-between-evaluations")
            sig.append("B")
        elif op["op"] == "preload":
            X_ = w.mesh.points
            v_ = w.field.fields[0].values
            v_[...] = 0.0
            v_[:, 0] = (op["stretch"] - 1.0) * (X_[:, 0] - X_[:, 0].min())
            for it_ in w.items:
                it_.assemble.vector(w.field)  # (what a static job to this state leaves behind)
            w.preload_values = [f.values.copy() for f in w.field.fields]
            log.count("preloaded-state")
            sig.append("P")
        elif op["op"] == "density":
            kitem = op["item"]
            doc = copy.deepcopy(doc) if doc is doc0 else doc
            doc["items"][kitem]["density"] = doc["items"][kitem]["density"] * op["factor"]
            w.items[kitem].density = doc["items"][kitem]["density"]
            log.count("density-changed-between-evaluations")
            sig.append("D")
        else:
            if not evaluated or job.eigenvectors is None:
                continue
            n = op["n"]
            if not (-len(job.eigenvalues) <= n < len(job.eigenvalues)):
                n = 0
            before = [f.values.copy() for f in w.field.fields]
            field, freq = api("FreeVibration.extract", job.extract, doc["seed"] + k, n=n, inplace=op["inplace"], **({"x0": w.field} if op.get("x0") else {}))
            lam = job.eigenvalues[n]
            with np.errstate(invalid="ignore"):
                want = np.sqrt(lam) / (2 * np.pi)
            if not ((np.isnan(want) and np.isnan(freq)) or abs(freq - want) <= 1e-12 * abs(want)):
                raise Violation(PROP, "mode-shape", f"extract reports frequency {freq!r}, sqrt(lambda)/(2 pi) = {want!r}", site="FreeVibration.extract.frequency")
            vals_all = np.concatenate([f.values.ravel() for f in field.fields])
            full = np.zeros_like(vals_all)
            full[dof1] = job.eigenvectors[:, n]
            if not np.array_equal(vals_all, full):
                fixed = np.setdiff1d(np.arange(len(vals_all)), dof1)
                bad0 = float(np.abs(vals_all[fixed]).max()) if len(fixed) else 0.0
                raise Violation(PROP, "mode-shape", f"extracted mode shape is not the eigenvector scattered to the free unknowns (max on prescribed unknowns {bad0:.3e}, max diff on free {np.abs(vals_all[dof1]-full[dof1]).max():.3e})", site="FreeVibration.extract.field")
            if not op["inplace"]:
                for a, f in zip(before, w.field.fields):
                    if not np.array_equal(a, f.values):
                        raise Violation(PROP, "mode-shape", "extract(inplace=False) modified the field of the items", site="FreeVibration.extract.inplace")
            else:
                log.count("inplace-extract-then-evaluate")
            log.count("mode-shape-checked")
            sig.append("X" + ("i" if op["inplace"] else "c"))
    # start-vector independence: evaluations at the same field state with the same k agree
    for a in range(len(spectra)):
        for b in range(a + 1, len(spectra)):
            if spectra[a][2] == spectra[b][2] and spectra[a][3] == spectra[b][3]:
                sa, sb = spectra[a][1], spectra[b][1]
                sc = max(float(np.abs(sa).max()), 1e-300)
                tol = 1e-7 * sc + 1e-9 * lam_char
                # a Lanczos method may miss copies of a repeated eigenvalue and return the next
                # one instead: compare as sets below the smaller of the two largest values
                top = min(sa.max(), sb.max()) - 10 * tol
                for x, other in ((sa, sb), (sb, sa)):
                    for val in x[x < top]:
                        if np.abs(other - val).min() > tol:
                            raise Violation(PROP, "start-vector-independence", f"eigenvalue {val:.8e} is returned for one start vector but not for another (nearest {other[np.abs(other - val).argmin()]:.8e})", site=f"FreeVibration.evaluate[{spectra[a][4]}]")
                log.count("start-vectors-compared")
    # rigid motion twin -----------------------------------------------------------------------------
    if doc.get("twin") and spectra and spectra[0][0] == 0 and regular_first:
        w2 = build(doc0, rigid=doc0["rigid"])
        # boundaries by the same point sets (coordinates moved), all components
        b2 = {}
        for name, b in bounds0.items():
            mask = np.zeros(w2.mesh.npoints, dtype=bool)
            mask[b.points] = True
            if b.mask.all(axis=1)[b.points].all():
                b2[name] = fem.Boundary(w2.field[0], mask=mask)
            else:
                b2 = None
                break
        if b2 is not None:
            job2 = fem.FreeVibration(w2.items, b2)
            sim2 = SimEigsh(log)
            sim2.v0_seed = doc["ops"][0]["v0_seed"] + 1
            nk = spectra[0][2]
            try:
                job2.evaluate(solver=sim2, k=nk)
            except RuntimeError as e:
                if "singular" in str(e).lower():
                    raise Discard("singular-shift")
                raise
            s1 = spectra[0][1]
            s2 = np.sort(job2.eigenvalues)
            sc = max(float(np.abs(s1).max()), 1e-300)
            tol = 1e-6 * sc + 1e-9 * lam_char
            top = min(s1.max(), s2.max()) - 10 * tol
            for x, other in ((s1, s2), (s2, s1)):
                for val in x[x < top]:
                    if np.abs(other - val).min() > tol:
                        raise Violation(PROP, "rigid-motion-invariance", f"eigenvalue {val:.8e} of the spectrum is not found after a rigid motion of the mesh (nearest {other[np.abs(other - val).argmin()]:.8e})", site="FreeVibration.rigid-motion")
            log.count("rigid-twin-compared")
    return {
        "signature": "|".join([w.mesh.cell_type, doc["field"]["kind"], "+".join(i["umat"]["name"] + ("*" if "multiplier" in i else "") for i in doc["items"]), str(doc["bc"].get("list", [{}])[0].get("name")) + str(len(doc["bc"].get("list", []))), "".join(sig), str(doc.get("twin")), str([o.get("v0_seed") for o in doc["ops"] if o["op"] == "evaluate"][:2])]),
        "nontrivial": bool(log.counters.get("eigenpairs-checked", 0)),
        "faults_fired": ["eigsh_" + doc["fault"]["kind"]] if sim.fired else [],
        "sim": {"eigen_solves": sim.calls, "operations": len(doc["ops"])},
    }


def build_like(doc, w):
    """A cold world at the field state of w (operators of the *current* state)."""
    w2 = build(doc)
    pre = getattr(w, "preload_values", None)
    if pre is not None:
        # the items were evaluated at the pre-loaded state (as a static job would have left them);
        # matrix() without a field works with the kinematics of that evaluation
        w2.set_values(pre)
        for it_ in w2.items:
            it_.assemble.vector(w2.field)
        w2.preload_values = pre
    w2.set_values([f.values for f in w.field.fields])
    return w2


def shrink(doc):
    out = []
    if doc.get("kind") == "c18mb":
        return out
    n = len(doc["ops"])
    for i in range(n - 1, 0, -1):
        d = copy.deepcopy(doc)
        d["ops"].pop(i)
        out.append(d)
    if doc.get("twin"):
        d = copy.deepcopy(doc)
        d["twin"] = False
        out.append(d)
    if doc.get("fault"):
        d = copy.deepcopy(doc)
        d.pop("fault")
        out.append(d)
    if doc["mesh"].get("perturb"):
        d = copy.deepcopy(doc)
        d["mesh"].pop("perturb")
        out.append(d)
    if any(x > 2 for x in doc["mesh"]["n"]):
        d = copy.deepcopy(doc)
        d["mesh"]["n"] = [max(2, x - 1) for x in d["mesh"]["n"]]
        out.append(d)
    return out
