"""C01 - the assembled tangent matrix is the derivative of the assembled vector.

Why simulation: Newton calls fun_items(items, x) (links every item's field to the iterate,
evaluates kinematics into reused out= buffers, caches them) and then jac_items(items, x)
*without* a field, so every matrix is built from whatever the last vector call left in the
item's caches, committed state variables and - for the nearly-incompressible body - the
condensed (p, J, u, F) state. Whether K is the derivative of f depends on the call history.

Simulated: job histories over every item kind; the `solve=` seam hands over exactly the K and
-f Newton summed at iterate x; at seeded iterations the monitor compares K d with central
differences of fun_items evaluated on cold forks at x +- h d.
"""
import copy

import numpy as np

import felupe as fem
import felupe.tools._newton as _newton_mod
from scipy.sparse import csr_matrix

from .. import gen, jobsim, world
from ..kernel import Discard, InjectedFault, Streams, Violation, close_exact_twin, pick
from ..sched import SimPool
from .C15 import apply_model_ramp, defgrad

PROP = "C01"

EVIDENCE = {
    "probes_expected": ["fd-probe", "fd-probe-smooth", "kink-discarded", "settled-incompressible-checked", "symmetry-checked", "cache-transparency-checked", "call-order-checked", "repeated-evaluation-checked", "parallel-knob-checked", "item:MultiPointContact", "item:MultiPointConstraint", "item:SolidBodyPressure", "item:SolidBodyCauchyStress", "item:FormItem", "item:SolidBodyNearlyIncompressible", "history-state-probe", "umat-kwargs-checked", "tangent-after-region-reload"],
    "clauses_sampled_only": ["for stateless items the derivative check at a given state is a pure function of that state; only the states (and the cache / link / multiplier protocol through which K and f reach Newton) are history-generated"],
}

SYMMETRIC_ITEMS = ("SolidBody", "SolidBodyNearlyIncompressible", "MultiPointConstraint")


def generate(seed, tier, k):
    r = gen.Streams(seed)["top"]
    doc = gen.gen_job(seed, profile="tangent")
    if k % 4 == 3:
        gen.add_faults(doc, seed, kinds=["solver_inexact", "solver_scale", "solver_flip"], p_fault=1.0)
    doc["c01"] = {"probe_seed": r.randrange(1 << 30), "probes_per_substep": r.choice([1, 2, 3]), "parallel": r.random() < (0.8 if any(i_["type"] == "FormItem" for i_ in doc["items"]) else 0.3), "pool": {"n": r.choice([2, 3, 4, 7, 16]), "order": r.choice(["shuffle", "lazy", "reverse"]), "seed": r.randrange(1 << 30)}}
    return gen.maybe_units(doc, any_force=True, share=2 if any(i_["type"] == "MultiPointContact" for i_ in doc["items"]) else 4)


class C01Monitor(jobsim.Monitor):
    def __init__(self, log, doc):
        self.log = log
        self.doc = doc
        self.rng = np.random.default_rng(doc["c01"]["probe_seed"])
        self.nprobe = 0
        self.has_ni = any(i["type"] == "SolidBodyNearlyIncompressible" for i in doc["items"])
        self.has_history = any("umat" in i and i["umat"]["name"] in world.HISTORY_MATERIALS for i in doc["items"])

    def V(self, monitor, detail, site=None):
        raise Violation(PROP, monitor, detail, site=site)

    def on_substep_start(self, eng, c):
        c["durable_start"] = eng.w.durable()
        c["probe_its"] = set([0] + list(self.rng.choice(6, size=self.doc["c01"]["probes_per_substep"] - 1, replace=False)) if self.doc["c01"]["probes_per_substep"] > 1 else [0])

    def make_fork(self, eng, c, xvals, parallel=False, with_state=True):
        d2 = copy.deepcopy(eng.w.doc)
        if parallel:
            for it in d2["items"]:
                if "umat" in it:
                    it["umat"]["parallel"] = True
        fk = world.World(d2)
        apply_model_ramp(fk, c["step"], c["substep"])
        d = dict(c["durable_start"])
        d["values"] = xvals
        if not with_state:
            d["state"] = [None for _ in d["state"]]
        fk.load(d)
        items = [fk.items[k] for k in self.doc["steps"][c["step"]].get("items", range(len(fk.items)))]
        return fk, items

    def on_solve(self, eng, c, it):
        if c["iter"] not in c["probe_its"]:
            return
        K = it["K"].tocsr()
        f_live = -np.asarray(it["b"], dtype=float)
        x = np.concatenate([v.ravel() for v in it["x"]])
        if not (np.all(np.isfinite(f_live)) and np.all(np.isfinite(K.data)) and np.all(np.isfinite(x))):
            self.log.count("probe-skipped-nonfinite")
            return
        fk, items = self.make_fork(eng, c, it["x"])
        # domain guard (DESIGN section 6)
        try:
            F = defgrad(fk, it["x"])
            J = np.linalg.det(np.moveaxis(F, (0, 1), (-2, -1)))
        except Exception:
            J = np.array([1.0])
        if not np.all(np.isfinite(J)) or J.min() < 0.2 or J.max() > 5:
            self.log.count("probe-skipped-domain")
            return
        # documented non-smooth point of pseudo-elastic softening: the max-history switch. The
        # hand-coded model zeroes d(eta)/dW where isclose(eta, 1), i.e. in a band around the
        # switch; states inside that band (incl. exactly at it) are outside the property's domain
        for k, spec in enumerate(self.doc["items"]):
            if "umat" in spec and spec["umat"]["name"] in ("OgdenRoxburgh", "OgdenRoxburghAD"):
                from .C15 import neo_hooke_energy

                p = spec["umat"]["p"]
                W = neo_hooke_energy(F, p["mu"])
                Wold = c["durable_start"]["statevars"][k][0]
                band = 1e-3 * (p["m"] + p["beta"] * np.maximum(W, Wold))
                if np.any((np.abs(W - Wold) < band) & (Wold > 1e-12)):
                    self.log.count("probe-skipped-near-max-history-switch")
                    return
        for k, spec in enumerate(self.doc["items"]):
            self.log.count("item:" + spec["type"])
        if self.has_history and any(sv is not None and sv.size and np.any(sv != 0) for sv in c["durable_start"]["statevars"]):
            self.log.count("history-state-probe")

        def R(xv):
            fk.set_vector(xv)
            return world.ref_fun_items(fk, items)

        f0 = R(x)
        n = x.size
        Kn = float(abs(K).max()) if K.nnz else 0.0
        # cache transparency: what Newton summed == what a cold world assembles at this state
        fs = max(float(np.abs(f0).max()), Kn * (float(np.abs(x).max()) + 1e-4), 1e-300)
        ok, rel = close_exact_twin(f0, f_live, atol=1e-11 * fs)
        if not ok:
            self.V("cache-transparency", f"vector Newton summed at substep ({c['step']},{c['substep']}) iteration {c['iter']} differs from a cold re-assembly at the same durable state (rel {rel:.2e})", site="fun_items")
        if not self.has_ni:
            Kc = world.ref_jac_items(fk, items)
            ok, rel = close_exact_twin(Kc, K.toarray(), atol=1e-11 * max(Kn, 1e-300))
            if not ok:
                self.V("cache-transparency", f"matrix Newton summed differs from a cold re-assembly at the same durable state (rel {rel:.2e})", site="jac_items")
            self.log.count("cache-transparency-checked")
            Kuse = K
            label = "live"
        else:
            # settled state of the condensed (p, J): evaluate the residual twice at x, then the matrix
            fk.set_vector(x)
            world.ref_fun_items(fk, items)
            world.ref_fun_items(fk, items)
            Kuse = csr_matrix(world.ref_jac_items(fk, items))
            label = "settled"
            self.log.count("settled-incompressible-checked")
        # symmetry of conservative items ---------------------------------------------------------
        for k, spec in enumerate(self.doc["items"]):
            if spec["type"] in SYMMETRIC_ITEMS and fk.items[k] in items:
                if spec["type"] == "SolidBody" and spec["umat"]["name"] in ("Plastic", "Visco"):
                    continue
                fk.set_vector(x)
                fk.items[k].assemble.vector(field=fk.items[k].field)
                if spec["type"] == "SolidBodyNearlyIncompressible":
                    fk.items[k].assemble.vector(field=fk.items[k].field)
                Ki = fk.items[k].assemble.matrix().toarray()
                a = float(np.abs(Ki - Ki.T).max())
                if a > 1e-7 * (float(np.abs(Ki).max()) + 1e-300):  # eigenvalue-based AD models: asymmetry up to ~1e-9 from rounding
                    self.V("symmetry", f"matrix of item {k} ({spec['type']}) is not symmetric (asymmetry {a:.3e}, scale {np.abs(Ki).max():.3e})", site=f"{spec['type']}.matrix")
                self.log.count("symmetry-checked")
        # finite differences ----------------------------------------------------------------------
        dirs = []
        d = self.rng.normal(size=n)
        dirs.append(("dense", d / np.linalg.norm(d)))
        e = np.zeros(n)
        e[int(self.rng.integers(n))] = 1.0
        dirs.append(("unit", e))
        offs = np.concatenate([[0], np.cumsum([v.size for v in it["x"]])])
        if len(offs) > 2:
            blk = int(self.rng.integers(len(offs) - 1))
            d = np.zeros(n)
            d[offs[blk] : offs[blk + 1]] = self.rng.normal(size=offs[blk + 1] - offs[blk])
            dirs.append((f"block{blk}", d / np.linalg.norm(d)))
        # natural scales of the unknowns in the unit system of the scenario (lengths L, stresses S):
        # directions and step sizes are taken relative to them
        un = self.doc.get("units", {})
        Lc = float(un.get("L", 1.0))
        sc = np.ones(n)
        for kf in range(len(offs) - 1):
            sc[offs[kf] : offs[kf + 1]] = Lc if kf == 0 else (float(un.get("S", 1.0)) if kf == 1 else 1.0)
        dirs = [(nm, dv_ * sc) for nm, dv_ in dirs]
        scx = sc  # (the name sc is re-used for a scalar further down)
        xs = 1.0 + float(np.abs(x / sc).max())
        for dname, dv in dirs:
            Kd = Kuse @ dv
            best = None
            kappa = {}
            errs = {}
            for h0 in (1e-5, 1e-6):
                h = h0 * xs
                fp, fm_ = R(x + h * dv), R(x - h * dv)
                if not (np.all(np.isfinite(fp)) and np.all(np.isfinite(fm_))):
                    best = None
                    break
                g = (fp - fm_) / (2 * h)
                kappa[h0] = float(np.linalg.norm((fp - f0) / h - (f0 - fm_) / h))
                err = float(np.linalg.norm(Kd - g))
                errs[h0] = err
                if best is None or err < best[0]:
                    best = (err, g, h0)
            self.log.count("fd-probe")
            if best is None:
                self.log.count("probe-skipped-nonfinite")
                continue
            err, g, h0 = best
            scale = float(np.linalg.norm(Kd) + np.linalg.norm(g))
            whole = Kn * float(np.linalg.norm(dv)) * np.sqrt(n)
            # smooth <=> the gap between the one-sided differences scales with h; the absolute
            # escape is the rounding-noise level of that gap (a kink that small gives an error
            # of half its size, which is below the violation threshold 1e-8 * whole)
            smooth = kappa[1e-6] <= 0.3 * kappa[1e-5] or kappa[1e-6] < 1e-8 * whole
            if not smooth:
                self.log.count("kink-discarded")
                continue
            self.log.count("fd-probe-smooth")
            if err > 2e-6 * scale + 1e-8 * whole + 1e-300:
                # a wrong tangent gives the same error at both step sizes (truncation error is
                # negligible); switching points at different distances from the state do not
                if abs(errs[1e-5] - errs[1e-6]) > 0.25 * max(errs.values()):
                    self.log.count("kink-discarded")
                    self.log.count("kink-discarded:inconsistent-step-sizes")
                    continue
                # a switching point exactly at the state (neutral loading: the first iterate of a
                # substep after plastic flow sits on the yield surface at every plastic point): the
                # gap between the one-sided differences is a + b h with a > 0, the tangent may take
                # either branch per point, so any K d within the jump a of the central difference is
                # a valid selection
                jump = max(0.0, (10.0 * kappa[1e-6] - kappa[1e-5]) / 9.0)
                if jump > 1e-8 * whole and err <= 2.0 * jump:
                    self.log.count("kink-discarded")
                    self.log.count("kink-discarded:switch-at-state")
                    continue
                where = int(np.abs(Kd - g).argmax())
                self.V(
                    "fd-tangent",
                    f"{label} K.d differs from the central difference of fun_items by {err:.3e} (|K d|+|g| = {scale:.3e}, direction {dname}, h={h0:g}, worst row {where}, substep ({c['step']},{c['substep']}) iteration {c['iter']}; errors at h=1e-5 / 1e-6: {errs[1e-5]:.3e} / {errs[1e-6]:.3e}, one-sided gaps {kappa[1e-5]:.3e} / {kappa[1e-6]:.3e})",
                    site="+".join(sorted({s["type"] + (":" + s["umat"]["name"] if "umat" in s else "") for s in self.doc["items"]})),
                )
        if self.nprobe % 2 == 1:
            self.nprobe += 1
            return
        # the library's own sums, evaluated repeatedly at one state (modified Newton, line search):
        # every evaluation gives the same matrix / vector
        fk4, items4 = self.make_fork(eng, c, it["x"])
        f_a = _newton_mod.fun_items(items4, fk4.field)
        K_a = _newton_mod.jac_items(items4, fk4.field).toarray()
        K_b = _newton_mod.jac_items(items4, fk4.field).toarray()
        f_b = _newton_mod.fun_items(items4, fk4.field)
        K_c = _newton_mod.jac_items(items4, fk4.field).toarray()
        if not self.has_ni:
            for nm, A_, B_ in (("second", K_a, K_b), ("third", K_a, K_c)):
                ok, rel = close_exact_twin(A_, B_, atol=1e-11 * max(Kn, 1e-300))
                if not ok:
                    self.V("repeatable", f"jac_items evaluated a {nm} time at the same state gives a different matrix (rel {rel:.2e})", site="jac_items.repeated")
        else:
            # the condensed state is settled after the second residual evaluation at this field
            _newton_mod.fun_items(items4, fk4.field)
            K_d = _newton_mod.jac_items(items4, fk4.field).toarray()
            ok, rel = close_exact_twin(K_d, K_c, atol=1e-9 * max(Kn, 1e-300), rtol=1e-9)
            if not ok:
                self.V("repeatable", f"jac_items at a settled state changes between two evaluations (rel {rel:.2e})", site="jac_items.repeated")
        ok, rel = close_exact_twin(f_a, f_b, atol=1e-11 * fs)
        if not ok:
            self.V("repeatable", f"fun_items evaluated twice at the same state gives different vectors (rel {rel:.2e})", site="fun_items.repeated")
        ok, rel = close_exact_twin(f_a, f0, atol=1e-11 * fs)
        if not ok:
            self.V("cache-transparency", f"fun_items differs from the independent sum over the items (rel {rel:.2e})", site="fun_items.vs-reference")
        self.log.count("repeated-evaluation-checked")
        # call order: the matrix assembled first on a cold item (incl. the item's own keyword
        # arguments) is the matrix assembled after the vector ------------------------------------------
        fk3, items3 = self.make_fork(eng, c, it["x"])
        for k, spec in enumerate(self.doc["items"]):
            item = fk3.items[k]
            if item in items3 and spec["type"] == "SolidBodyNearlyIncompressible":
                # the condensed body is a stateful iteration: two cold forks in the same state are moved to
                # the same new displacements, one by matrix(field) alone (tangent first), the other by
                # vector(field) followed by matrix() - one extraction each, the same matrix
                fkb, _ = self.make_fork(eng, c, it["x"])
                xa = fk3.vector()
                xn = xa + 0.02 * xs * scx[: xa.size] * self.rng.normal(size=xa.size)
                fk3.set_vector(xn)
                fkb.set_vector(xn)
                Ka = item.assemble.matrix(field=item.field).toarray()
                fkb.items[k].assemble.vector(field=fkb.items[k].field)
                Kb = fkb.items[k].assemble.matrix().toarray()
                fk3.set_vector(xa)
                ok, rel = close_exact_twin(Ka, Kb, rtol=1e-9, atol=1e-10 * (float(np.abs(Kb).max()) + 1e-300))
                if not ok:
                    self.V("call-order", f"matrix(field) of the nearly-incompressible body at new displacements differs from vector(field) followed by matrix() from the same previous state (rel {rel:.2e})", site="SolidBodyNearlyIncompressible.matrix-first")
                self.log.count("call-order-checked:condensed")
                continue
            if item not in items3:
                continue
            kw = {}
            if spec["type"] == "SolidBodyPressure":
                # the load value handed over as keyword argument, different from the stored one
                kw["pressure"] = float(getattr(item.results, "pressure", 0.0) or 0.0) * 1.7 + 0.3
            fld = item.field
            if len(fld.fields) == len(fk3.field.fields):
                fld.link(fk3.field)
            else:
                fld.fields[0].values = fk3.field.fields[0].values
            try:
                K_first = item.assemble.matrix(field=fld, **kw).toarray()
                item.assemble.vector(field=fld, **kw)
                K_second = item.assemble.matrix(field=fld, **kw).toarray()
            except TypeError:
                continue  # item without a field argument in matrix()
            ok, rel = close_exact_twin(K_first, K_second, atol=1e-11 * (float(np.abs(K_second).max()) + 1e-300))
            if not ok:
                self.V("call-order", f"matrix of item {k} ({spec['type']}{', pressure= keyword' if kw else ''}) assembled before the vector differs from the one assembled after it (rel {rel:.2e})", site=f"{spec['type']}.matrix-first")
            # the matrix requested again at another state, without a vector call in between
            # (hand-written loops that assemble the matrix first; buffers are reused in place)
            if not kw and spec["type"] in ("SolidBody",):
                x_here = fk3.vector()
                x_there = x_here + 1e-3 * xs * self.rng.normal(size=x_here.size)
                fk3.set_vector(x_there)
                fld = item.field
                K_there = item.assemble.matrix(field=fld).toarray()
                fk5, _ = self.make_fork(eng, c, it["x"])
                fk5.set_vector(x_there)
                K_cold = fk5.items[k].assemble.matrix(field=fk5.items[k].field).toarray()
                fk3.set_vector(x_here)
                ok, rel = close_exact_twin(K_there, K_cold, rtol=1e-10, atol=1e-11 * (float(np.abs(K_cold).max()) + 1e-300))
                if not ok:
                    self.V("call-order", f"matrix of item {k} requested at a new state without a vector call in between differs from a cold item's matrix at that state (rel {rel:.2e})", site=f"{spec['type']}:{spec['umat']['name']}.matrix-at-new-state")
            if kw:
                # and it is the derivative of the vector assembled with the same keyword
                n_ = K_second.shape[0]
                dv = self.rng.normal(size=n_)
                dv /= np.linalg.norm(dv)
                h = 1e-6 * xs
                xv = fk3.vector()

                def Rk(xx):
                    fk3.set_vector(xx[: fk3.vector().size])
                    return item.assemble.vector(field=item.field, **kw).toarray().ravel()

                pad = lambda a: np.concatenate([a, np.zeros(max(0, xv.size - a.size))])[: xv.size]
                g = (Rk(xv + h * pad(dv)) - Rk(xv - h * pad(dv))) / (2 * h)
                fk3.set_vector(xv)
                Kd = item.assemble.matrix(field=item.field, **kw).toarray() @ dv
                err = float(np.linalg.norm(Kd - g[: Kd.size]))
                sc = float(np.linalg.norm(Kd) + np.linalg.norm(g)) + 1e-12
                if err > 2e-6 * sc + 1e-9:
                    self.V("fd-tangent", f"matrix(field, pressure=p) of item {k} is not the derivative of vector(field, pressure=p) (err {err:.3e}, scale {sc:.3e})", site="SolidBodyPressure.keyword")
            # the forces requested for ANOTHER container (a copy holding another state - a trial state,
            # the `field + dx` of a hand-written loop), then the matrix without a field: it is the
            # tangent at the state the forces were assembled for
            if not kw:
                x_here = fk3.vector()
                if self.nprobe % 2:
                    x_there = np.zeros_like(x_here)
                else:
                    x_there = x_here + 0.05 * xs * scx[: x_here.size] * self.rng.normal(size=x_here.size)
                fk3.set_vector(x_there)
                other = item.field.copy()
                fk3.set_vector(x_here)
                try:
                    item.assemble.vector(field=other)
                    K_a = item.assemble.matrix().toarray()
                except TypeError:
                    K_a = None
                if K_a is not None:
                    fk6, _ = self.make_fork(eng, c, it["x"])
                    fk6.set_vector(x_there)
                    fk6.items[k].assemble.vector(field=fk6.items[k].field)
                    K_cold = fk6.items[k].assemble.matrix().toarray()
                    ok, rel = close_exact_twin(K_a, K_cold, rtol=1e-10, atol=1e-11 * (float(np.abs(K_cold).max()) + 1e-300))
                    if not ok:
                        self.V("call-order", f"vector(field=<another container>) followed by matrix() of item {k} ({spec['type']}) is not the matrix at the state of that container (rel {rel:.2e})", site=f"{spec['type']}.matrix-after-vector-on-other-container")
                    self.log.count("other-container-checked")
                    if spec["type"] == "MultiPointContact":
                        # at that (randomly perturbed: some points closed, some open) state the matrix is
                        # the derivative of the item's own piecewise-linear vector
                        nloc = x_there.size
                        dv_ = self.rng.normal(size=nloc) * scx[:nloc]

                        def r_at(xx):
                            fk6.set_vector(xx)
                            return fk6.items[k].assemble.vector(field=fk6.items[k].field).toarray().ravel()

                        gs = []
                        for h_ in (1e-6 * xs, 1e-7 * xs):
                            gs.append((r_at(x_there + h_ * dv_) - r_at(x_there - h_ * dv_)) / (2 * h_))
                        fk6.set_vector(x_there)
                        Kd_ = K_cold @ np.concatenate([dv_, np.zeros(max(0, K_cold.shape[1] - nloc))])[: K_cold.shape[1]]
                        gn = float(np.linalg.norm(gs[0])) + float(np.linalg.norm(Kd_)) + 1e-300
                        if float(np.linalg.norm(gs[0] - gs[1])) <= 1e-6 * gn:  # no switch within the step
                            err_ = float(np.linalg.norm(Kd_[: gs[1].size] - gs[1][: Kd_.size]))
                            if err_ > 1e-5 * gn:
                                self.V("fd-tangent", f"MultiPointContact at a partly closed state: K.d differs from the central difference of the item's vector by {err_:.3e} (scale {gn:.3e}; {len(item.points)} points)", site="MultiPointContact.partial-contact")
                            self.log.count("partial-contact-fd-probe")
            self.log.count("call-order-checked")
        # parallel knob -----------------------------------------------------------------------------
        if self.doc["c01"].get("parallel") and self.nprobe % 2 == 0:
            p = self.doc["c01"]["pool"]
            fk2, items2 = self.make_fork(eng, c, it["x"], parallel=True)
            pool = SimPool(processes=p["n"], rng=Streams(p["seed"] + self.nprobe)["sched"], order=p["order"])
            with pool:
                fpar = _newton_mod.fun_items(items2, fk2.field, parallel=True)
                if self.has_ni:
                    fpar = _newton_mod.fun_items(items2, fk2.field, parallel=True)
                Kpar = _newton_mod.jac_items(items2, fk2.field, parallel=True).toarray()
            ok, rel = close_exact_twin(fpar, f0, atol=1e-11 * fs)
            if not ok:
                self.V("parallel-knob", f"parallel=True vector differs from the serial one (rel {rel:.2e}, pool {p['n']})", site="fun_items.parallel")
            ok, rel = close_exact_twin(Kpar, Kuse.toarray(), atol=1e-11 * max(Kn, 1e-300))
            if not ok:
                self.V("parallel-knob", f"parallel=True matrix differs from the serial one (rel {rel:.2e}, pool {p['n']})", site="jac_items.parallel")
            self.log.count("parallel-knob-checked")
            self.log.count("pool-jobs", pool.njobs)
        self.nprobe += 1


class _ScaledNeoHooke(fem.NeoHooke):
    """A material with an optional call-time keyword argument in gradient() and hessian()."""

    def gradient(self, x, out=None, scale=1.0):
        res = super().gradient(x, out=out)
        res[0] = np.multiply(res[0], scale, out=res[0])
        return res

    def hessian(self, x, out=None, scale=1.0):
        res = super().hessian(x, out=out)
        res[0] = np.multiply(res[0], scale, out=res[0])
        return res


def kwargs_check(doc, log):
    """Call-time keyword arguments of the material handed over through assemble.vector / matrix
    (kwargs={...}) reach both: the matrix is the derivative of the vector for the same kwargs."""
    if doc["field"]["kind"] not in ("Field", "PlaneStrain", "Axi"):
        return
    w = world.World({"mesh": doc["mesh"], "field": doc["field"], "items": [], "steps": []})
    rng = np.random.default_rng(doc["c01"]["probe_seed"])
    f0 = w.field[0]
    base = 0.02 * rng.normal(size=f0.values.shape) * float(np.max(doc["mesh"]["b"])) / max(doc["mesh"]["n"])
    if doc["field"]["kind"] == "Axi":
        base[np.abs(w.mesh.points[:, 1]) < 1e-12, 1] = 0.0
    for name in ("SolidBody", "SolidBodyNearlyIncompressible"):
        scale = float(rng.choice([0.5, 2.5]))
        for kw in ({}, {"scale": scale}):
            if name == "SolidBody":
                body = fem.SolidBody(_ScaledNeoHooke(mu=1.0, bulk=5.0), w.field)
            else:
                body = fem.SolidBodyNearlyIncompressible(_ScaledNeoHooke(mu=1.0), w.field, bulk=50.0)

            def R(u):
                w.set_values([u])
                body.assemble.vector(w.field, kwargs=dict(kw))
                return body.assemble.vector(w.field, kwargs=dict(kw)).toarray().ravel()  # (condensed state settled)

            r0 = R(base)
            K = body.assemble.matrix(w.field, kwargs=dict(kw)).toarray()
            d = rng.normal(size=base.shape)
            if doc["field"]["kind"] == "Axi":
                d[np.abs(w.mesh.points[:, 1]) < 1e-12, 1] = 0.0
            d /= np.abs(d).max()
            h = 1e-6 * float(np.max(doc["mesh"]["b"]))
            g = (R(base + h * d) - R(base - h * d)) / (2 * h)
            Kd = K @ d.ravel()
            err = float(np.abs(Kd - g).max())
            sc = float(np.abs(Kd).max() + np.abs(g).max()) + 1e-300
            if not np.isfinite(err) or err > 2e-5 * sc:
                raise Violation(PROP, "fd-tangent", f"{name}: matrix assembled with kwargs={ {k_: v_ for k_, v_ in kw.items() if k_ != 'out'} } differs from the central difference of the vector assembled with the same kwargs by {err:.3e} (scale {sc:.3e})", site=f"{name}.assemble(kwargs)")
            log.count("umat-kwargs-checked")


def reload_check(doc, log):
    """Geometry changed in place (`mesh.update(points=..., callback=region.reload)`, same field
    container, same item objects that were assembled before): matrix = derivative of the vector on
    the new geometry for every item."""
    if doc["field"]["kind"] != "Field" or doc["mesh"].get("convert") or doc["mesh"].get("extra_point") or doc["mesh"].get("orphan_point"):
        return
    rng = np.random.default_rng(doc["c01"]["probe_seed"] + 1)
    items = [it for it in copy.deepcopy(doc["items"]) if it["type"] == "SolidBody" and it["umat"]["name"] in ("NeoHooke", "NeoHookeCompressible", "AD:neo_hooke", "AD:mooney_rivlin")][:1]
    un = doc.get("units", {})
    S_ = float(un.get("S", 1.0))
    items.append({"type": "FormItem", "C_seed": int(rng.integers(1 << 30)), "mu": 0.7 * S_, "lmbda": 0.4 * S_, "scale": 1.0, "sym": False, "nonsym": bool(rng.integers(2))})
    w = world.World({"seed": doc["seed"], "mesh": doc["mesh"], "field": doc["field"], "items": items, "steps": []})
    L_ = float(np.max(doc["mesh"]["b"])) / max(doc["mesh"]["n"])
    u = 0.02 * L_ * rng.normal(size=w.field[0].values.shape)
    w.set_values([u])
    world.ref_fun_items(w, w.items)
    world.ref_jac_items(w, w.items)  # everything assembled once on the old geometry
    newp = w.mesh.points * (1.0 + 0.2 * rng.uniform(0.3, 1.0)) + 0.05 * L_ * rng.uniform(-1, 1, w.mesh.points.shape)
    w.mesh.update(points=newp, callback=w.region.reload)
    if np.any(w.region.dV <= 0):
        return

    def R(x):
        w.set_values([x.reshape(u.shape)])
        return world.ref_fun_items(w, w.items)

    R(u.ravel())
    K = world.ref_jac_items(w, w.items)
    d = rng.normal(size=u.size)
    d /= np.abs(d).max()
    h = 1e-6 * L_
    g = (R(u.ravel() + h * d) - R(u.ravel() - h * d)) / (2 * h)
    Kd = K @ d
    err = float(np.abs(Kd - g).max())
    sc = float(np.abs(Kd).max() + np.abs(g).max()) + 1e-300
    if not np.isfinite(err) or err > 2e-5 * sc:
        raise Violation(PROP, "fd-tangent", f"after the geometry was updated in place (region reloaded) the matrix of {'+'.join(i_['type'] for i_ in items)} differs from the central difference of the vector by {err:.3e} (scale {sc:.3e})", site="items.after-region-reload")
    log.count("tangent-after-region-reload")


def run(doc, log):
    dd = copy.deepcopy(doc)
    holder = {}

    def wrap(k, um, spec):
        return jobsim.wrap_umat(um, lambda *a: holder["eng"].umat_hook(k)(*a))

    w = world.World(dd, umat_wrap=wrap)
    mon = C01Monitor(log, dd)
    eng = jobsim.Engine(w, dd, log, monitors=[mon])
    holder["eng"] = eng
    with eng:
        job, exc = eng.run_job()
    if exc is not None and not isinstance(exc, (ValueError, InjectedFault)):
        raise Violation(PROP, "fd-tangent", f"undocumented exception {type(exc).__name__}: {exc}", site="job.exc")
    fired = [f["kind"] for f in eng.fired]
    nconv = len(eng.callbacks)
    if pick(doc["seed"], "umat-kwargs", 5) == 0:
        kwargs_check(doc, log)
    if pick(doc["seed"], "region-reload", 3) == 0:
        reload_check(doc, log)
    sig = "|".join(
        [
            doc["mesh"]["gen"] + str(doc["mesh"].get("convert")),
            doc["field"]["kind"],
            "+".join(i["type"] + (":" + i["umat"]["name"] if "umat" in i else "") for i in doc["items"]),
            doc["bc"]["case"],
            "x".join(str(len(s["ramp"][0]["values"])) for s in doc["steps"]),
            ",".join(sorted(set(fired))),
            str(mon.nprobe > 0),
        ]
    )
    return {
        "signature": sig,
        "nontrivial": mon.nprobe > 0 and nconv >= 1,
        "faults_fired": fired,
        "sim": {"substeps_converged": nconv, "tangent_probes": mon.nprobe, "newton_calls": len(eng.history)},
    }


from .C07 import shrink as _shrink07  # noqa: E402


def shrink(doc):
    out = _shrink07(doc)
    if doc["c01"].get("parallel"):
        d = copy.deepcopy(doc)
        d["c01"]["parallel"] = False
        out.append(d)
    if doc["c01"]["probes_per_substep"] > 1:
        d = copy.deepcopy(doc)
        d["c01"]["probes_per_substep"] = 1
        out.append(d)
    if doc["mesh"].get("extra_point") and not any(i["type"].startswith("MultiPoint") for i in doc["items"]):
        d = copy.deepcopy(doc)
        d["mesh"].pop("extra_point")
        out.append(d)
    return out
