"""C20 - result and mesh files contain exactly what was computed.

Simulated: jobs with `filename=` in a private scratch cwd under any load history, early
stop by faults F1-F6, disk faults F10 at the `h5py.File` seam; mesh write/read round trips
for every cell type x vtk/vtu/xdmf; merged container reads; `tools.save`.
Oracle = a file model built from the history the job callback saw.
"""
import copy
import os

import numpy as np

import felupe as fem

from .. import gen, jobsim, world
from ..apicall import call as api
from ..kernel import Discard, EventLog, InjectedFault, SimCallbackError, SimDiskError, Violation, close_exact_twin, pick
from .C15 import defgrad

PROP = "C20"

EVIDENCE = {
    "probes_expected": ["frames-compared", "early-stop-file-read-back", "roundtrip-compared", "save-compared", "merged-container-read", "custom-data-compared", "fault:h5_create_fail", "fault:disk_full", "second-job-compared", "mesh-object-history", "save-with-gradient", "multibody-x0-file-compared", "second-step-on-sibling-model"],
    "components": {
        "real": ["felupe (from /repo/src)", "numpy", "scipy incl. SuperLU", "meshio writers/readers", "h5py/HDF5 on a real scratch file"],
        "simulated": ["h5py.File proxy (fails on the n-th create_dataset / on close)", "linear solver fault layer", "job callback and data callables", "clock"],
    },
}

FORMATS = ["vtk", "vtu", "xdmf"]


def generate(seed, tier, k):
    r = gen.Streams(seed)["top"]
    kind = r.choice(["job", "job", "job", "job", "roundtrip", "roundtrip", "save", "container", "multibody"])
    if kind == "multibody":
        mesh = gen.gen_mesh(r, allow=("linear",), max_cells=12)
        return {"kind": kind, "seed": seed, "mesh": mesh, "c20": {"kind": kind, "nsub": r.choice([1, 2, 3]), "move": r.choice([0.05, 0.1, -0.05]), "stem": r.choice(["multi", "m.b"])}}
    if kind == "job":
        doc = gen.gen_job(seed, profile=r.choice(["general", "general", "history"]))
        mode = k % 3
        if mode == 1:
            gen.add_faults(doc, seed, p_fault=1.0)
        elif mode == 2:
            nsub = sum(len(s["ramp"][0]["values"]) for s in doc["steps"])
            f = r.choice(["h5_create_fail", "h5_create_fail", "h5_close_fail", "data_raise", "xml_disk_full"])
            if f == "h5_create_fail":
                doc["faults"].append({"kind": f, "call": r.randrange(0, 2 + 5 * nsub)})
            elif f == "h5_close_fail":
                doc["faults"].append({"kind": f})
            elif f == "xml_disk_full":
                doc["faults"].append({"kind": f, "at_byte": r.choice([0, 10, 100, 500, 2000])})
            else:
                doc["faults"].append({"kind": f, "frame": r.randrange(nsub), "where": r.choice(["point", "cell"])})
        doc["c20"] = {
            "kind": "job",
            "custom_point": r.random() < 0.5,
            "custom_cell": r.random() < 0.5,
            "point_default": r.random() < 0.85,
            "cell_default": r.random() < 0.85,
            "stem": r.choice(["result", "out.put", "a"]),
            "override_default": r.random() < 0.3,
            "second_job": r.random() < 0.3,
            "x0": r.random() < 0.15,
        }
        return gen.maybe_units(doc)
    fam = r.choice(["linear", "quadratic", "full", "simplex", "simplex2"])
    mesh = gen.gen_mesh(r, allow=(fam,), max_cells=12)
    if gen.kpick(seed, "nano-mesh", 5) == 0:
        # a nanometre-sized part described in metres (coordinates of 1e-9)
        mesh["a"] = [v * 1e-9 for v in mesh["a"]]
        mesh["b"] = [v * 1e-9 for v in mesh["b"]]
    doc = {"kind": kind, "seed": seed, "mesh": mesh, "c20": {"kind": kind, "format": r.choice(FORMATS)}}
    if kind == "container":
        doc["c20"]["second"] = r.choice(["same-shifted", "same-touching", "other-type"])
        doc["c20"]["decimals"] = r.choice([None, 8])
    if kind == "roundtrip":
        # how the mesh object came about before it is written, and through which name
        doc["c20"]["mesh_history"] = r.choice([None, None, "copy", "copy-points", "copy-then-update", "update", "copy-cells"])
        doc["c20"]["writer"] = r.choice(["write", "write", "save"])
    if kind in ("roundtrip", "save") and r.random() < 0.3:
        doc["c20"]["disk_full_at"] = r.choice([0, 1, 17, 100, 400, 1000, 3000, 10000])
    if kind == "save":
        doc["c20"]["values_seed"] = r.randrange(1 << 30)
        doc["c20"]["with_forces"] = r.random() < 0.8
        doc["c20"]["format"] = r.choice(["vtu", "vtu", "xdmf", "vtk"])
    return doc


# ----------------------------------------------------------------------------------------
# disk seam (S7): proxy around the real h5py.File
# ----------------------------------------------------------------------------------------
class H5Seam:
    def __init__(self, faults, log, fired):
        import h5py

        self.h5py = h5py
        self.real = h5py.File
        self.faults = faults
        self.log = log
        self.fired = fired
        self.creates = 0
        seam = self

        class SimH5File:
            def __init__(self, *a, **k):
                self._f = seam.real(*a, **k)

            def create_dataset(self, name, *a, **k):
                n = seam.creates
                seam.creates += 1
                for f in seam.faults:
                    if f["kind"] == "h5_create_fail" and f["call"] == n and not f.get("_fired"):
                        f["_fired"] = True
                        seam.fired.append({"kind": "h5_create_fail", "call": n})
                        seam.log.ev("fault", kind="h5_create_fail", call=n)
                        seam.log.count("fault:h5_create_fail")
                        raise SimDiskError(28, "injected: no space left on device")
                return self._f.create_dataset(name, *a, **k)

            def close(self):
                self._f.close()
                for f in seam.faults:
                    if f["kind"] == "h5_close_fail" and not f.get("_fired"):
                        f["_fired"] = True
                        seam.fired.append({"kind": "h5_close_fail"})
                        seam.log.ev("fault", kind="h5_close_fail")
                        seam.log.count("fault:h5_close_fail")
                        raise SimDiskError(5, "injected: I/O error on close")

            def __getattr__(self, name):
                return getattr(self._f, name)

            def __getitem__(self, k):
                return self._f[k]

        self.proxy = SimH5File

    def __enter__(self):
        self.h5py.File = self.proxy
        return self

    def __exit__(self, *a):
        self.h5py.File = self.real
        return False


class DiskFull:
    """`builtins.open` seam for the pure-Python writers (vtk, vtu, XML): files opened for writing
    raise OSError(ENOSPC) once `at_byte` bytes have been written in total (F11)."""

    def __init__(self, at_byte, log):
        import builtins

        self.builtins = builtins
        self.real = builtins.open
        self.at = at_byte
        self.written = 0
        self.fired = False
        self.log = log
        seam = self

        class Proxy:
            def __init__(self, f):
                object.__setattr__(self, "_f", f)

            def write(self, data):
                n = len(data)
                if seam.written + n > seam.at:
                    if not seam.fired:
                        seam.fired = True
                        seam.log.ev("fault", kind="disk_full", at=seam.at)
                        seam.log.count("fault:disk_full")
                    room = max(seam.at - seam.written, 0)
                    if room:
                        self._f.write(data[:room])  # short write, then the error
                        seam.written += room
                    raise SimDiskError(28, "injected: no space left on device")
                seam.written += n
                return self._f.write(data)

            def writelines(self, lines):
                for l in lines:
                    self.write(l)

            def __getattr__(self, name):
                return getattr(self._f, name)

            def __enter__(self):
                self._f.__enter__()
                return self

            def __exit__(self, *a):
                return self._f.__exit__(*a)

            def __iter__(self):
                return iter(self._f)

        def sim_open(file, mode="r", *a, **k):
            f = seam.real(file, mode, *a, **k)
            if any(c in mode for c in "wax+") and isinstance(file, (str, bytes, os.PathLike)) and not str(file).startswith(("/dev", "/proc")):
                return Proxy(f)
            return f

        self.sim_open = sim_open

    def __enter__(self):
        self.builtins.open = self.sim_open
        return self

    def __exit__(self, *a):
        self.builtins.open = self.real
        return False


# ----------------------------------------------------------------------------------------
# job files
# ----------------------------------------------------------------------------------------
def log_strain_ref(F):
    """Logarithmic strain tensor and its principal values per quadrature point (reference)."""
    Ft = np.moveaxis(F, (0, 1), (-2, -1))  # (..., i, j)
    C = np.swapaxes(Ft, -1, -2) @ Ft
    w, v = np.linalg.eigh(C)
    e = 0.5 * np.log(w)
    E = np.einsum("...ia,...a,...ja->...ij", v, e, v)
    return np.moveaxis(E, (-2, -1), (0, 1)), np.moveaxis(e, -1, 0)


def run_job(doc, log):
    opts = doc["c20"]
    dd = copy.deepcopy(doc)
    holder = {}

    def wrap(k, um, spec):
        return jobsim.wrap_umat(um, lambda *a: holder["eng"].umat_hook(k)(*a))

    w = world.World(dd, umat_wrap=wrap)
    if len(dd["steps"]) == 2 and not opts.get("x0") and pick(dd["seed"], "sibling-step", 3) == 0:
        # the second step acts on a re-created sibling of the model (its own field container, starting
        # from its own undeformed state): the frames of that step hold the states of that step
        w2 = world.World(dd, umat_wrap=wrap)
        w.steps = [w.steps[0], w2.steps[1]]
        log.count("second-step-on-sibling-model")
    eng = jobsim.Engine(w, dd, log)
    holder["eng"] = eng
    frames = []  # file model
    custom = {"point": [], "cell": []}
    data_fault = [f for f in dd.get("faults", []) if f["kind"] == "data_raise"]
    counter = {"point": 0, "cell": 0}

    def maybe_fail(where):
        n = counter[where]
        counter[where] += 1
        for f in data_fault:
            if f["where"] == where and f["frame"] == n and not f.get("_fired"):
                f["_fired"] = True
                eng.fired.append({"kind": "data_raise", "frame": n, "where": where})
                log.ev("fault", kind="data_raise", frame=n, where=where)
                log.count("fault:data_raise")
                raise SimCallbackError("injected: data callable failed")

    def my_point(field, substep):
        maybe_fail("point")
        a = np.linalg.norm(field[0].values, axis=1) + 0.25 * len(custom["point"])
        custom["point"].append(a.copy())
        # the data function works with the public post-processing helpers and treats what they
        # return as its own arrays (converts units, adds the coordinates, ... in place)
        x = fem.math.displacement(field)
        x *= 1000.0
        x += 1.0
        Fl = fem.math.deformation_gradient(field)
        Fl *= 0.0
        El = fem.math.strain(field)
        El += 1.0
        return a

    def my_cell(field, substep):
        maybe_fail("cell")
        F = field.extract()[0]
        a = np.linalg.det(np.moveaxis(F, (0, 1), (-2, -1))).mean(0)
        custom["cell"].append(a.copy())
        for Fk in field.extract():
            Fk *= 0.0  # extracted without out=: the caller's own arrays
        return [a]

    point_data = {"Nodal Norm": my_point} if (opts.get("custom_point") or any(f["where"] == "point" for f in data_fault)) else None
    override = bool(opts.get("override_default")) and point_data is not None and opts.get("point_default", True)

    def my_disp(field, substep):
        return 1000.0 * np.pad(field[0].values, ((0, 0), (0, 3 - field[0].values.shape[1])))

    if override:
        point_data["Displacement"] = my_disp
    cell_data = {"Mean J": my_cell} if (opts.get("custom_cell") or any(f["where"] == "cell" for f in data_fault)) else None
    # an empty dictionary instead of None (seed-derived, no extra generator draw)
    if pick(dd["seed"], "empty-data-dicts", 3) == 0:
        point_data = {} if point_data is None else point_data
        cell_data = {} if cell_data is None else cell_data
        log.count("empty-data-dicts")
    keys_before = (None if point_data is None else list(point_data.items()), None if cell_data is None else list(cell_data.items()))
    filename = opts.get("stem", "result") + ".xdmf"
    seam = H5Seam(dd.get("faults", []), log, eng.fired)
    xmlf = [f for f in dd.get("faults", []) if f["kind"] == "xml_disk_full"]
    dsk = DiskFull(xmlf[0]["at_byte"] if xmlf else 1 << 60, log)
    xkw = {"x0": w.field} if opts.get("x0") else {}
    with seam, dsk, eng:
        job, exc = eng.run_job(
            **xkw,
            filename=filename,
            point_data=point_data,
            cell_data=cell_data,
            point_data_default=opts.get("point_default", True),
            cell_data_default=opts.get("cell_default", True),
        )
    keys_after = (None if point_data is None else list(point_data.items()), None if cell_data is None else list(cell_data.items()))
    if keys_after != keys_before:
        raise Violation(PROP, "frame-content", "Job.evaluate changed the caller's point_data / cell_data dictionaries", site="Job.evaluate.caller-dicts")
    if exc is not None and not isinstance(exc, (ValueError, InjectedFault, KeyboardInterrupt)):
        raise Violation(PROP, "early-stop", f"undocumented exception {type(exc).__name__}: {exc}", site="job.exc")
    if dsk.fired:
        eng.fired.append({"kind": "xml_disk_full"})
        if exc is None:
            raise Violation(PROP, "success-implies-complete", "evaluate() returned normally although the XDMF file could not be written (disk full)", site="Job.evaluate", fault="xml_disk_full")
        log.count("fault:xml_disk_full")
        return eng, exc, 0
    disk_fault = [f for f in eng.fired if f["kind"] in ("h5_create_fail", "h5_close_fail")]
    if disk_fault and exc is None:
        raise Violation(PROP, "success-implies-complete", "evaluate() returned normally although writing the result file failed", site="Job.evaluate", fault=disk_fault[0]["kind"])
    # how many frames must be complete in the file
    ncb = len(eng.callbacks)
    complete = ncb
    if exc is not None:
        # the frame of the last callback may not have been written (callback / data / disk fault)
        cbf = [f for f in eng.fired if f["kind"] in ("callback_raise", "callback_kbint", "data_raise", "h5_create_fail")]
        if cbf:
            complete = ncb - 1
        if any(f["kind"] == "h5_create_fail" for f in eng.fired) and seam.creates <= 2:
            complete = 0
    complete = max(complete, 0)
    # read back ----------------------------------------------------------------------------
    import meshio

    if not os.path.exists(filename):
        raise Violation(PROP, "early-stop", "no result file after evaluate()", site="file.missing", fault=(eng.fired[0]["kind"] if eng.fired else None))
    mesh_fault = any(f["kind"] == "h5_create_fail" and f["call"] < 2 for f in eng.fired)
    try:
        with meshio.xdmf.TimeSeriesReader(filename) as reader:
            points, cells = reader.read_points_cells()
            nsteps = reader.num_steps
            file_frames = []
            for k in range(nsteps):
                try:
                    file_frames.append(reader.read_data(k))
                except Exception as e:
                    if k < complete:
                        raise
                    file_frames.append(None)
    except Violation:
        raise
    except Exception as e:
        if mesh_fault:
            log.count("file-unreadable-after-mesh-write-fault")
            return eng, exc, 0
        raise Violation(PROP, "early-stop" if exc is not None else "frame-count-and-order", f"result file not readable: {type(e).__name__}: {e}", site="file.read", fault=(eng.fired[0]["kind"] if eng.fired else None))
    fk = eng.fired[0]["kind"] if eng.fired else None
    m = w.mesh
    pts3 = np.pad(m.points, ((0, 0), (0, 3 - m.points.shape[1])))
    if not (np.array_equal(points, pts3) or np.array_equal(points, m.points)):
        raise Violation(PROP, "frame-content", "mesh points in the result file differ from the mesh", site="file.points", fault=fk)
    if len(cells) != 1 or cells[0].type != m.cell_type or not np.array_equal(cells[0].data, m.cells):
        raise Violation(PROP, "frame-content", "cells in the result file differ from the mesh", site="file.cells", fault=fk)
    if exc is None and nsteps != ncb:
        raise Violation(PROP, "frame-count-and-order", f"{nsteps} frames in the file, {ncb} converged substeps", site="file.frames")
    if nsteps < complete or nsteps > ncb:
        raise Violation(PROP, "early-stop", f"{nsteps} frames in the file, {complete}..{ncb} expected after the failure", site="file.frames", fault=fk)
    for k in range(min(complete, nsteps)):
        t, pd, cd = file_frames[k]
        if float(t) != float(k):
            raise Violation(PROP, "frame-count-and-order", f"frame {k} carries time {t}", site="file.time", fault=fk)
        cb = eng.callbacks[k]
        u = cb["x"][0]
        # exactly the requested arrays, nothing left over from anywhere else
        want_p = set(["Displacement"] if opts.get("point_default", True) else []) | set(point_data or {})
        want_c = set(["Principal Values of Logarithmic Strain", "Logarithmic Strain", "Deformation Gradient"] if opts.get("cell_default", True) else []) | set(cell_data or {})
        if set(pd) != want_p or set(cd) != want_c:
            raise Violation(PROP, "frame-content", f"frame {k} holds point data {sorted(pd)} / cell data {sorted(cd)}, requested {sorted(want_p)} / {sorted(want_c)}", site="file.arrays", fault=fk)
        if opts.get("point_default", True):
            if "Displacement" not in pd:
                raise Violation(PROP, "frame-content", f"frame {k} has no Displacement", site="file.displacement", fault=fk)
            want = np.pad(u, ((0, 0), (0, 3 - u.shape[1]))) * (1000.0 if override else 1.0)
            if not np.array_equal(pd["Displacement"], want):
                raise Violation(PROP, "frame-content", f"frame {k}: Displacement differs from the displacement field of substep {k} (max {np.abs(pd['Displacement']-want).max():.3e})", site="file.displacement", fault=fk)
        if point_data and "Nodal Norm" in point_data:
            if not np.array_equal(np.asarray(pd.get("Nodal Norm")).ravel(), custom["point"][k]):
                raise Violation(PROP, "frame-content", f"frame {k}: custom point data differ from what the callable returned", site="file.custom-point", fault=fk)
            log.count("custom-data-compared")
        if cell_data and "Mean J" in cell_data:
            got = cd.get("Mean J")
            if got is None or not np.array_equal(np.asarray(got[0]).ravel(), custom["cell"][k]):
                raise Violation(PROP, "frame-content", f"frame {k}: custom cell data differ from what the callable returned", site="file.custom-cell", fault=fk)
            log.count("custom-data-compared")
        if opts.get("cell_default", True):
            F = defgrad(w, cb["x"])
            if w.doc["field"]["kind"] == "Field" and m.dim == 2:
                F = F[:2, :2]
            Fm = F.mean(-2).transpose(2, 0, 1)
            got = np.asarray(cd["Deformation Gradient"][0])
            ok, rel = close_exact_twin(got.reshape(Fm.shape), Fm, rtol=1e-12, atol=1e-13)
            if not ok:
                raise Violation(PROP, "frame-content", f"frame {k}: Deformation Gradient is not the quadrature mean of F (rel {rel:.2e})", site="file.defgrad", fault=fk)
            if np.all(np.linalg.det(np.moveaxis(F, (0, 1), (-2, -1))) > 0.05):
                E, e = log_strain_ref(F)
                n = F.shape[0]
                idx = [(0, 0), (1, 1), (2, 2), (0, 1), (1, 2), (0, 2)] if n == 3 else [(0, 0), (1, 1), (0, 1)]
                # Voigt storage of strain-like tensors doubles the shear entries (documented)
                voigt = np.array([E[a, b] * (1.0 if a == b else 2.0) for a, b in idx]).mean(-2).T
                got = np.asarray(cd["Logarithmic Strain"][0])
                ok, rel = close_exact_twin(got, voigt, rtol=1e-8, atol=1e-10)
                if not ok:
                    raise Violation(PROP, "frame-content", f"frame {k}: Logarithmic Strain is not the quadrature mean of the log strain (rel {rel:.2e})", site="file.logstrain", fault=fk)
                pv = e[::-1].mean(-2).T
                got = np.asarray(cd["Principal Values of Logarithmic Strain"][0])
                ok, rel = close_exact_twin(got, pv, rtol=1e-8, atol=1e-10)
                if not ok:
                    raise Violation(PROP, "frame-content", f"frame {k}: principal log strains differ (rel {rel:.2e})", site="file.logstrain-principal", fault=fk)
        log.count("frames-compared")
    if exc is not None:
        log.count("early-stop-file-read-back")
    # a second, independent job with default data only, evaluated later in the same process
    if opts.get("second_job"):
        d2 = copy.deepcopy(doc)
        d2["faults"] = []
        w2 = world.World(d2)
        job2 = fem.Job(steps=w2.steps)
        try:
            job2.evaluate(filename="second.xdmf", verbose=False)
        except ValueError as e2:
            from ..kernel import Unexpected, newton_failure

            if not newton_failure(e2):
                raise Unexpected(e2, "second-job") from e2
            # the fault-free history itself does not converge: nothing to compare
            log.count("second-job-did-not-converge")
            return eng, exc, complete
        with meshio.xdmf.TimeSeriesReader("second.xdmf") as reader:
            reader.read_points_cells()
            n2 = reader.num_steps
            t, pd2, cd2 = reader.read_data(n2 - 1)
        if set(pd2) != {"Displacement"} or set(cd2) != {"Principal Values of Logarithmic Strain", "Logarithmic Strain", "Deformation Gradient"}:
            raise Violation(PROP, "frame-content", f"a later job with default data only wrote point data {sorted(pd2)} / cell data {sorted(cd2)}", site="file.arrays.second-job")
        u2 = w2.field[0].values
        if not np.array_equal(pd2["Displacement"], np.pad(u2, ((0, 0), (0, 3 - u2.shape[1])))):
            raise Violation(PROP, "frame-content", "Displacement written by a later job with default data only is not its displacement field", site="file.displacement.second-job")
        log.count("second-job-compared")
    return eng, exc, complete


# ----------------------------------------------------------------------------------------
# round trips
# ----------------------------------------------------------------------------------------
def run_roundtrip(doc, log):
    m = world.build_mesh(doc["mesh"])
    hist = doc["c20"].get("mesh_history")
    if hist:
        m0 = m
        keep0 = (m0.points.copy(), m0.cells.copy())
        newp = m0.points * 1.25 + 0.125
        newc = m0.cells[::-1].copy()
        if hist == "copy":
            m = m0.copy()
        elif hist == "copy-points":
            m = m0.copy(points=newp)
        elif hist == "copy-cells":
            m = m0.copy(cells=newc)
        elif hist == "copy-then-update":
            m = m0.copy()
            m.update(points=newp)
        else:
            m.update(points=newp)
        if m is not m0 and not (np.array_equal(m0.points, keep0[0]) and np.array_equal(m0.cells, keep0[1])):
            raise Violation(PROP, "round-trip", f"Mesh.copy / update of the copy ({hist}) changed the original mesh", site="Mesh.copy")
        log.count("mesh-object-history")
    fmt = doc["c20"]["format"]
    name = f"mesh.{fmt}"
    m_write = getattr(m, doc["c20"].get("writer", "write"))  # `save` is the documented alias of `write`
    full = doc["c20"].get("disk_full_at")
    if full is not None and fmt in ("vtk", "vtu"):
        with DiskFull(full, log) as dsk:
            try:
                m_write(name)
                raised = None
            except KeyError:
                raise Discard("format-unsupported")
            except OSError as e:
                raised = e
        if dsk.fired:
            if raised is None:
                raise Violation(PROP, "success-implies-complete", f"Mesh.write returned normally although the disk was full after {full} bytes", site=f"write.{fmt}", fault="disk_full")
            return {"signature": f"roundtrip|{m.cell_type}|{fmt}|disk_full", "nontrivial": True, "faults_fired": ["disk_full"]}
        if raised is not None:
            raise raised
    else:
        try:
            m_write(name)
        except KeyError as e:
            raise Discard("format-unsupported")
    back = api("mesh.read", fem.mesh.read, doc["seed"], name, dim=m.dim)
    log.ev("roundtrip", fmt=fmt, cell_type=m.cell_type, points=m.points, cells=m.cells)
    if len(back.meshes) != 1:
        raise Violation(PROP, "round-trip", f"{len(back.meshes)} cell blocks read back", site=f"read.{fmt}")
    b = back.meshes[0]
    if b.cell_type != m.cell_type:
        raise Violation(PROP, "round-trip", f"cell type {b.cell_type} != {m.cell_type}", site=f"read.{fmt}.celltype")
    if b.points.shape != m.points.shape or not np.array_equal(b.points, m.points):
        raise Violation(PROP, "round-trip", "points differ after write/read", site=f"read.{fmt}.points")
    if b.cells.shape != m.cells.shape or not np.array_equal(b.cells, m.cells):
        raise Violation(PROP, "round-trip", "cells differ after write/read", site=f"read.{fmt}.cells")
    # default arguments: dim=None keeps the (padded) coordinates of the file, cellblock selects
    back2 = api("mesh.read", fem.mesh.read, doc["seed"] + 1, name, cellblock=0)
    b2 = back2.meshes[0]
    if b2.cell_type != m.cell_type or not np.array_equal(b2.cells, m.cells):
        raise Violation(PROP, "round-trip", "cells differ after write/read with cellblock=0", site=f"read.{fmt}.cellblock")
    p2 = np.asarray(b2.points)
    if p2.shape[0] != m.npoints or not np.array_equal(p2[:, : m.dim], m.points) or (p2.shape[1] > m.dim and np.any(p2[:, m.dim :] != 0)):
        raise Violation(PROP, "round-trip", "points differ after write/read without dim= (in-plane coordinates changed or padding not zero)", site=f"read.{fmt}.points-default-dim")
    # merged read of a single cell block: one shared point array, cells still describe the geometry
    back3 = fem.mesh.read(name, dim=m.dim, merge=True)
    b3 = back3.meshes[0]
    if back3.points is not b3.points:
        raise Violation(PROP, "shared-points", "container read with merge=True: the mesh does not reference the container's point array", site=f"read.{fmt}.merge-single-block")
    if b3.cells.shape != m.cells.shape or not np.allclose(back3.points[b3.cells], m.points[m.cells], rtol=0, atol=1e-7):
        raise Violation(PROP, "round-trip", "cell corner coordinates changed in a merged read of a single block", site=f"read.{fmt}.merge-single-block")
    again = back3.as_meshio()
    if not np.allclose(np.asarray(again.points)[:, : m.dim][again.cells[0].data], m.points[m.cells], rtol=0, atol=1e-7):
        raise Violation(PROP, "round-trip", "container.as_meshio() after a merged read pairs cells with the wrong points", site=f"read.{fmt}.merge-single-block")
    log.count("roundtrip-compared")
    return {"signature": f"roundtrip|{m.cell_type}|{fmt}|{doc['mesh'].get('perturb') is not None}", "nontrivial": True}


def run_container(doc, log):
    m = world.build_mesh(doc["mesh"])
    o = doc["c20"]
    fmt = o["format"]
    width = m.points[:, 0].max() - m.points[:, 0].min()
    if o["second"] == "same-shifted":
        m2 = fem.Mesh(m.points + np.eye(m.dim)[0] * 3 * width, m.cells, m.cell_type)
    elif o["second"] == "same-touching":
        m2 = fem.Mesh(m.points + np.eye(m.dim)[0] * width, m.cells, m.cell_type)
    else:
        base = dict(doc["mesh"])
        base.pop("convert", None)
        if m.cell_type in ("triangle", "tetra"):
            mm = world.build_mesh(base)
        else:
            base["convert"] = "triangulate"
            mm = world.build_mesh(base)
        m2 = fem.Mesh(mm.points + np.eye(m.dim)[0] * width, mm.cells, mm.cell_type)
    cont = fem.MeshContainer([m, m2])
    name = f"cont.{fmt}"
    try:
        cont.as_meshio(combined=False).write(name)
    except KeyError:
        raise Discard("format-unsupported")
    import meshio

    try:
        raw = meshio.read(name)
    except Exception:
        raise Discard("meshio-cannot-read-its-own-file")
    if len(raw.cells) != 2:
        raise Discard("format-merges-cell-blocks")
    back = fem.mesh.read(name, dim=m.dim, merge=True, decimals=o.get("decimals"))
    log.ev("container", n=len(back.meshes), points=back.points)
    if len(back.meshes) != 2:
        raise Violation(PROP, "shared-points", f"{len(back.meshes)} meshes read back, 2 written", site="read.container")
    for k, mk in enumerate(back.meshes):
        if mk.points is not back.points or mk.points is not back.meshes[0].points:
            raise Violation(PROP, "shared-points", f"mesh {k} of a merged container does not reference the shared point array", site="read.container.points")
    # cells still describe the same geometry
    for mk, orig in zip(back.meshes, (m, m2)):
        if mk.cell_type != orig.cell_type or mk.cells.shape != orig.cells.shape:
            raise Violation(PROP, "round-trip", "cell block changed type or shape in a merged read", site="read.container.cells")
        if not np.allclose(back.points[mk.cells], orig.points[orig.cells], rtol=0, atol=1e-7):
            raise Violation(PROP, "round-trip", "cell corner coordinates changed in a merged read", site="read.container.geometry")
    # one cell block selected (by keyword or in the documented positional order): exactly that
    # block, on the points of the file
    npts_file = len(raw.points)
    for blk, orig in enumerate((m, m2)):
        one = api("mesh.read", fem.mesh.read, doc["seed"] + blk, name, cellblock=blk, dim=m.dim)
        if len(one.meshes) != 1:
            raise Violation(PROP, "round-trip", f"read(..., cellblock={blk}) of a file with two cell blocks returns {len(one.meshes)} meshes", site="read.container.cellblock")
        mk = one.meshes[0]
        if mk.cell_type != orig.cell_type or mk.cells.shape != orig.cells.shape:
            raise Violation(PROP, "round-trip", f"read(..., cellblock={blk}) returns a block of type {mk.cell_type} / shape {mk.cells.shape}, written {orig.cell_type} / {orig.cells.shape}", site="read.container.cellblock")
        if len(mk.points) != npts_file or not np.allclose(np.asarray(mk.points)[mk.cells], orig.points[orig.cells], rtol=0, atol=1e-7):
            raise Violation(PROP, "round-trip", f"read(..., cellblock={blk}): {len(mk.points)} points for {npts_file} in the file, or cells paired with other points", site="read.container.cellblock")
    log.count("single-block-of-container-read")
    log.count("merged-container-read")
    # three meshes, written the default way (cells of one type stacked into one block), in a
    # seed-derived order - two meshes of one type need not be neighbours in the list
    m3 = fem.Mesh(m.points + np.eye(m.dim)[0] * 5 * width, m.cells, m.cell_type)
    order = ([m, m2, m3], [m, m3, m2], [m2, m, m3], [m3, m2, m])[pick(doc["seed"], "container-order", 4)]
    cont3 = fem.MeshContainer(order)
    name3 = f"cont3.{fmt}"
    cont3.as_meshio().write(name3)
    back3 = fem.mesh.read(name3, dim=m.dim)
    for ctype in dict.fromkeys(mm_.cell_type for mm_ in order):
        want = np.concatenate([mm_.points[mm_.cells] for mm_ in order if mm_.cell_type == ctype])
        blocks = [np.asarray(mk.points)[mk.cells] for mk in back3.meshes if mk.cell_type == ctype]
        got = np.concatenate(blocks) if blocks else np.zeros((0,) + want.shape[1:])
        if got.shape != want.shape:
            raise Violation(PROP, "round-trip", f"container of {[mm_.cell_type for mm_ in order]} written with the default (combined) layout: {got.shape[0]} '{ctype}' cells in the file, the container holds {want.shape[0]}", site="write.container.combined")
        if not np.allclose(got, want, rtol=0, atol=1e-7):
            raise Violation(PROP, "round-trip", f"container written with the default (combined) layout: corner coordinates of the '{ctype}' cells changed", site="write.container.combined")
    log.count("combined-container-written")
    return {"signature": f"container|{m.cell_type}|{m2.cell_type}|{fmt}|{o['second']}", "nontrivial": True}


def run_save(doc, log):
    o = doc["c20"]
    m = world.build_mesh(doc["mesh"])
    region = world.build_region(m)
    field = fem.FieldContainer([fem.Field(region, dim=m.dim)])
    rng = np.random.default_rng(o["values_seed"])
    span_ = float((m.points.max(0) - m.points.min(0)).max())
    field[0].values[:] = rng.normal(size=field[0].values.shape) * 0.01 * span_
    forces = rng.normal(size=field[0].values.size) if o.get("with_forces") else None
    name = f"saved.{o['format']}"
    u0 = field[0].values.copy()
    import meshio

    full = o.get("disk_full_at") if o["format"] in ("vtk", "vtu") else None
    dsk = DiskFull(full if full is not None else 1 << 60, log)
    raised = None
    with dsk:
        try:
            extra_p = rng.normal(size=m.npoints)
            extra_c = rng.normal(size=m.ncells)
            pdata = {"Temperature": extra_p.copy()}
            skw = {}
            kept = {}
            if m.dim == 3 and o["values_seed"] % 2 == 0 and o["format"] == "xdmf":  # meshio cannot read 3x3 point tensors back from vtu
                # stresses handed over as `gradient=`; the caller's own projected tensors (same size as
                # the Cauchy stress save() projects internally) as additional point data
                Fq = field.extract()[0]
                um_ = fem.NeoHooke(mu=1.0, bulk=2.0)
                Pq = um_.gradient([Fq, None])[0]
                Cq = np.einsum("ki...,kj...->ij...", Fq, Fq)
                try:
                    pdata["Right Cauchy Green"] = fem.topoints(Cq, region)
                    pdata["Biot Like"] = fem.topoints(0.5 * (Cq - np.eye(3).reshape(3, 3, 1, 1)), region)
                    sq = np.einsum("ij...,kj...->ik...", Pq, Fq) / np.linalg.det(np.moveaxis(Fq, (0, 1), (-2, -1)))
                    kept = {k_: np.array(pdata[k_], copy=True) for k_ in ("Right Cauchy Green", "Biot Like")}
                    kept["Cauchy Stress"] = np.array(fem.topoints(sq, region), copy=True)
                    skw["gradient"] = [Pq.copy()]
                    log.count("save-with-gradient")
                except ValueError:
                    # topoints does not support this element / quadrature pair
                    pdata = {"Temperature": extra_p.copy()}
                    kept = {}
            fem.save(region, field, forces=None if forces is None else forces.copy(), filename=name, point_data=pdata, cell_data={"CellValue": [extra_c.copy()]}, **skw)
        except meshio.WriteError as e:
            if o["format"] == "vtk" and "spaces in field names" in str(e):
                raise Discard("format-unsupported")  # legacy VTK cannot carry 'Reaction Force'; nothing is written
            raise
        except OSError as e:
            raised = e
    if dsk.fired:
        if raised is None:
            raise Violation(PROP, "success-implies-complete", f"save() returned normally although the disk was full after {full} bytes", site=f"save.{o['format']}", fault="disk_full")
        return {"signature": f"save|{m.cell_type}|{o['format']}|disk_full", "nontrivial": True, "faults_fired": ["disk_full"]}
    if raised is not None:
        raise raised

    back = meshio.read(name)
    log.ev("save", fmt=o["format"], u=u0, f=forces)
    got = back.point_data.get("Displacements")
    if got is None or not np.array_equal(np.asarray(got)[:, : m.dim], u0):
        raise Violation(PROP, "save-fidelity", "saved displacements differ from the field values", site="save.displacements")
    if forces is not None:
        got = back.point_data.get("Reaction Force")
        if got is None or not np.array_equal(np.asarray(got)[:, : m.dim], forces.reshape(u0.shape)):
            raise Violation(PROP, "save-fidelity", "saved reaction forces differ from the given forces", site="save.forces")
    if not np.array_equal(back.points[:, : m.dim], m.points) or not np.array_equal(back.cells[0].data, m.cells):
        raise Violation(PROP, "save-fidelity", "saved mesh differs", site="save.mesh")
    if not np.array_equal(np.asarray(back.point_data.get("Temperature")).ravel(), extra_p) or not np.array_equal(np.asarray(back.cell_data.get("CellValue")[0]).ravel(), extra_c):
        raise Violation(PROP, "save-fidelity", "additional point / cell data given to save() are not written unchanged", site="save.extra-data")
    for k_, want in kept.items():
        got = back.point_data.get(k_)
        if got is None or not np.allclose(np.asarray(got).reshape(want.shape), want, rtol=1e-12, atol=1e-14):
            raise Violation(PROP, "save-fidelity", f"point data {k_!r} in the file are not the values {'the caller handed to save()' if k_ != 'Cauchy Stress' else 'of the Cauchy stress projected to the points'}", site=f"save.{'cauchy' if k_ == 'Cauchy Stress' else 'extra-data'}")
    log.count("save-compared")
    # a loop that saves every state with ONE dictionary of additional point data (created before the
    # loop): the second file holds the second state
    field[0].values[:] = 2.0 * u0 + 0.003 * span_
    u1 = field[0].values.copy()
    forces1 = None if forces is None else -0.5 * forces + 1.0
    name1 = f"saved-again.{o['format']}"
    fem.save(region, field, forces=None if forces1 is None else forces1.copy(), filename=name1, point_data=pdata, cell_data={"CellValue": [extra_c.copy()]})
    back1 = meshio.read(name1)
    got = back1.point_data.get("Displacements")
    if got is None or not np.array_equal(np.asarray(got)[:, : m.dim], u1):
        raise Violation(PROP, "save-fidelity", "second save() with the caller's dictionary of additional point data re-used: the displacements in the file are not the current field values", site="save.displacements[dict-reused]")
    if forces1 is not None:
        got = back1.point_data.get("Reaction Force")
        if got is None or not np.array_equal(np.asarray(got)[:, : m.dim], forces1.reshape(u1.shape)):
            raise Violation(PROP, "save-fidelity", "second save() with the caller's dictionary re-used: the reaction forces in the file are not the given forces", site="save.forces[dict-reused]")
    if not np.array_equal(np.asarray(back1.point_data.get("Temperature")).ravel(), extra_p):
        raise Violation(PROP, "save-fidelity", "second save() with the caller's dictionary re-used: additional point data changed", site="save.extra-data[dict-reused]")
    log.count("save-dict-reused")
    # no dictionary of the caller at all: a state saved with forces, then a state saved without - the
    # second file holds what was given for it and nothing of the first
    try:
        fem.save(region, field, forces=rng.normal(size=field[0].values.size), filename=f"with-forces.{o['format']}")
        field[0].values[:] = 0.5 * u0
        fem.save(region, field, filename=f"plain.{o['format']}")
        back2 = meshio.read(f"plain.{o['format']}")
        extra_keys = sorted(k_ for k_ in back2.point_data if k_ not in ("Displacements",))
        if extra_keys:
            raise Violation(PROP, "save-fidelity", f"save() without forces / gradient / point_data wrote point data that were not given for this call: {extra_keys}", site="save.leftover-point-data")
        got = back2.point_data.get("Displacements")
        if got is None or not np.array_equal(np.asarray(got)[:, : m.dim], 0.5 * u0):
            raise Violation(PROP, "save-fidelity", "save() without forces after a save() with forces: displacements differ from the field values", site="save.displacements[after-forces]")
        log.count("save-after-save-with-forces")
    except meshio.WriteError:
        pass  # legacy VTK cannot carry 'Reaction Force'
    return {"signature": f"save|{m.cell_type}|{o['format']}|{forces is not None}", "nontrivial": True}


def run_multibody(doc, log):
    """Two bodies on sub-meshes that share the points of one mesh, a top-level field on the whole
    mesh handed over as x0 (documented multi-body workflow): the file holds the mesh of x0 and
    every frame fits to it."""
    import meshio

    o = doc["c20"]
    m = world.build_mesh(doc["mesh"])
    if m.ncells < 2:
        raise Discard("single-cell-mesh")
    half = m.ncells // 2
    subs = [fem.Mesh(m.points, m.cells[:half], m.cell_type), fem.Mesh(m.points, m.cells[half:], m.cell_type)]
    import warnings

    with warnings.catch_warnings():
        warnings.simplefilter("ignore")
        regions = [world.build_region(s_) for s_ in subs]
        rtop = world.build_region(m)
    mk = (lambda rg: fem.FieldPlaneStrain(rg, dim=2)) if m.dim == 2 else (lambda rg: fem.Field(rg, dim=3))
    fields = [fem.FieldContainer([mk(rg)]) for rg in regions]
    top = fem.FieldContainer([mk(rtop)])
    bounds, _ = fem.dof.uniaxial(top, clamped=True, move=0.0)
    solids = [fem.SolidBody(fem.NeoHooke(mu=1.0, bulk=4.0), fields[0]), fem.SolidBody(fem.NeoHooke(mu=3.0, bulk=9.0), fields[1])]
    ext = float(m.points[:, 0].max() - m.points[:, 0].min())
    ramp = fem.math.linsteps([0, o["move"] * ext], num=o["nsub"])[1:]
    step = fem.Step(items=solids, ramp={bounds["move"]: ramp}, boundaries=bounds)
    seen = []

    def cb(j, i, substep):
        seen.append([f.values.copy() for f in substep.x.fields])

    name = o["stem"] + ".xdmf"
    try:
        fem.Job(steps=[step], callback=cb).evaluate(x0=top, filename=name, verbose=False)
    except ValueError as e:
        from ..kernel import Unexpected, newton_failure

        if newton_failure(e):
            raise Discard("newton-did-not-converge")
        raise Unexpected(e, "multibody-job") from e
    with meshio.xdmf.TimeSeriesReader(name) as reader:
        pts, cells = reader.read_points_cells()
        nfr = reader.num_steps
        frames = [reader.read_data(k) for k in range(nfr)]
    if nfr != len(seen):
        raise Violation(PROP, "frame-count-and-order", f"{nfr} frames in the file, {len(seen)} converged substeps", site="file.frames.multibody")
    if len(cells) != 1 or cells[0].data.shape != m.cells.shape or not np.array_equal(cells[0].data, m.cells) or not np.array_equal(np.asarray(pts)[:, : m.dim], m.points):
        got = sum(len(c_.data) for c_ in cells)
        raise Violation(PROP, "frame-content", f"the file of a job evaluated with x0= holds {got} cells, the mesh of x0 has {m.ncells}", site="file.mesh.x0")
    # independent per-cell mean of F from the arrays of the top-level region
    for k, (t, pd, cd) in enumerate(frames):
        u = seen[k][0]
        if not np.array_equal(np.asarray(pd["Displacement"])[:, : m.dim], u):
            raise Violation(PROP, "frame-content", f"frame {k}: Displacement is not the top-level field of substep {k}", site="file.displacement.x0")
        H = np.einsum("cai,aJqc->iJqc", u[m.cells], rtop.dhdX)
        F = np.zeros((3, 3) + H.shape[2:])
        F[: m.dim, : m.dim] = H
        F += np.eye(3).reshape(3, 3, 1, 1)
        Fm = F.mean(-2).transpose(2, 0, 1)
        got = np.asarray(cd["Deformation Gradient"][0])
        if got.shape[0] != m.ncells:
            raise Violation(PROP, "frame-content", f"frame {k}: cell data have {got.shape[0]} rows, the mesh in the file has {m.ncells} cells", site="file.celldata.x0")
        if not np.allclose(got.reshape(Fm.shape), Fm, rtol=1e-10, atol=1e-12):
            raise Violation(PROP, "frame-content", f"frame {k}: Deformation Gradient is not the quadrature mean of F of the top-level field", site="file.defgrad.x0")
    log.count("multibody-x0-file-compared")
    return {"signature": f"multibody|{m.cell_type}|{o['nsub']}", "nontrivial": True, "sim": {"substeps_converged": len(seen)}}


def run(doc, log):
    kind = doc["c20"]["kind"]
    if kind == "multibody":
        return run_multibody(doc, log)
    if kind == "roundtrip":
        return run_roundtrip(doc, log)
    if kind == "container":
        return run_container(doc, log)
    if kind == "save":
        return run_save(doc, log)
    eng, exc, complete = run_job(doc, log)
    fired = [f["kind"] for f in eng.fired]
    o = doc["c20"]
    sig = "|".join(
        [
            "job",
            doc["mesh"]["gen"] + str(doc["mesh"].get("convert")),
            doc["field"]["kind"],
            "x".join(str(len(s["ramp"][0]["values"])) for s in doc["steps"]),
            ",".join(sorted(set(fired))),
            "exc:" + (type(exc).__name__ if exc is not None else "-"),
            f"{int(o.get('custom_point', 0))}{int(o.get('custom_cell', 0))}{int(o.get('point_default', 1))}{int(o.get('cell_default', 1))}",
        ]
    )
    return {
        "signature": sig,
        "nontrivial": bool(complete >= 1 or fired),
        "faults_fired": fired,
        "sim": {"substeps_converged": len(eng.callbacks), "frames_read_back": complete, "h5_datasets": 0},
    }


from .C07 import shrink as _shrink07  # noqa: E402


def shrink(doc):
    if doc["c20"]["kind"] != "job":
        out = []
        if doc["mesh"].get("perturb"):
            d = copy.deepcopy(doc)
            d["mesh"].pop("perturb")
            out.append(d)
        if any(x > 2 for x in doc["mesh"].get("n", [])):
            d = copy.deepcopy(doc)
            d["mesh"]["n"] = [2] * len(d["mesh"]["n"])
            out.append(d)
        return out
    out = _shrink07(doc)
    for key in ("custom_point", "custom_cell"):
        if doc["c20"].get(key):
            d = copy.deepcopy(doc)
            d["c20"][key] = False
            out.append(d)
    return out
