"""C03 - every material's stress and elasticity are true derivatives (history / protocol part).

Decided by simulation: (1) for history-dependent models the elasticity must be the consistent
tangent of the stress update *at stored states*, and stored states only exist as the result of
load histories with commits and rejected trials; (2) "at fixed stored state": a trial call must
not modify the committed array it was given - a protocol property over call sequences;
(3) out= work buffers that are handed back in on every later call must not influence results.

Simulated: a material-point machine drives trial(F) / commit / reject sequences along seeded
strain paths (monotone, cyclic, with rejected excursions) for every constitutive object that
constructs offline; the same monitors sit between body and material in FE job histories
(MonitoredUmat at the S8 seam).
"""
import copy
import inspect

import numpy as np

import felupe as fem

from .. import gen, jobsim, world
from ..kernel import Discard, InjectedFault, Streams, Violation, adigest, close_exact_twin, pick

PROP = "C03"

EVIDENCE = {
    "rule": "one evaluation = one simulated call history of one constitutive object (material-point machine: 6..24 trial/commit/reject operations on a batch of material points; or one FE job with the monitoring wrapper between body and material); non-trivial = at least one derivative probe at a state with non-zero committed state variables, or a reused dirty out= buffer, or a rejected trial followed by a commit; distinct = distinct (model, operation sequence shape, probe outcome classes)",
    "probes_expected": ["fd-hessian-probe", "fd-gradient-probe", "probe-at-stored-state", "reject-then-commit", "out-buffer-dirty", "mixed-block-probe", "kink-discarded", "job-umat-call-monitored", "plastic-loading-point", "unloading-point", "hessian-first-at-new-state", "poisoned-call-in-between", "parameters-reassigned", "parameters-as-arrays", "parameters-in-another-stress-unit"],
    "clauses_sampled_only": ["for stateless hyperelastic models evaluated without out= the derivative check is sampling of deformation gradients (pure function); only the call protocol (idempotence, inputs untouched, buffer reuse) is history"],
    "components": {
        "real": ["felupe.constitution (hand-coded, tensortrax, composite, mixed wrappers, small-strain framework)", "tensortrax", "numpy"],
        "simulated": ["call history (trial / commit / reject)", "out= buffer reuse", "FE job runtime around the material (jobs)"],
    },
}

# model catalogue: name -> (factory, history?)  parameters are drawn in `draw_model`
MODELS = [
    "NeoHooke", "NeoHookeCompressible", "NeoHookeNoBulk", "Volumetric", "LinearElasticLargeStrain", "LinearElastic",
    "OgdenRoxburgh", "OgdenRoxburghAD", "Plastic", "Visco",
    "AD:neo_hooke", "AD:mooney_rivlin", "AD:yeoh", "AD:ogden", "AD:saint_venant_kirchhoff", "AD:arruda_boyce", "AD:third_order_deformation",
    "AD:extended_tube", "AD:blatz_ko", "AD:lopez_pamies", "AD:storakers", "AD:anssari_benam_bucchi", "AD:alexander", "AD:miehe_goektepe_lulei",
    "ThreeField", "NearlyIncompressible", "NearlyIncompressibleAD", "Composite",
    "MAD:total_lagrange", "MAD:updated_lagrange", "MAD:morph", "LinearElasticOrthotropic",
    "LinearElasticTensorNotation", "LinearElasticPlaneStress", "LinearElasticPlaneStrain", "MS:linear_elastic",
]
JAX_MODELS = ["JAX:neo_hooke", "JAX:mooney_rivlin", "JAX:yeoh", "JAX:third_order_deformation", "JAX:blatz_ko", "JAX:storakers", "JAX:extended_tube", "JAX:miehe_goektepe_lulei"]
HISTORY = ("OgdenRoxburgh", "OgdenRoxburghAD", "Plastic", "Visco", "MAD:morph", "TF:Visco", "NI:Visco", "TF:OgdenRoxburgh", "NI:OgdenRoxburgh")
MIXED = ("ThreeField", "NearlyIncompressible", "NearlyIncompressibleAD", "TF:Visco", "NI:Visco", "TF:OgdenRoxburgh", "NI:OgdenRoxburgh", "TF:NeoHookeCompressible", "TF:AD:saint_venant_kirchhoff", "TF:LinearElasticLargeStrain", "TF:AD:storakers")
TF_PLAIN = ("TF:NeoHookeCompressible", "TF:AD:saint_venant_kirchhoff", "TF:LinearElasticLargeStrain", "TF:AD:storakers")


# hand-coded models whose parameters are public attributes read at every evaluation
REPARAM = {"NeoHooke": ("mu", "bulk"), "NeoHookeNoBulk": ("mu",), "NeoHookeCompressible": ("mu", "lmbda"), "Volumetric": ("bulk",), "LinearElastic": ("E",)}


def draw_model(r, name):
    rf = gen.rfloat
    mu = rf(r, 0.5, 2.0)
    bulk = round(mu * r.choice([2.0, 5.0, 20.0, 50.0]), 4)
    if name in ("NeoHooke",):
        return {"name": "NeoHooke", "p": {"mu": mu, "bulk": bulk}}
    if name == "NeoHookeNoBulk":
        return {"name": "NeoHooke", "p": {"mu": mu, "bulk": None}}
    if name == "NeoHookeCompressible":
        return {"name": name, "p": {"mu": mu, "lmbda": bulk}}
    if name == "Volumetric":
        return {"name": name, "p": {"bulk": bulk}}
    if name == "MS:linear_elastic":
        return {"name": name, "p": {"lmbda": round(2 * mu, 4), "mu": mu}}
    if name in ("LinearElastic", "LinearElasticLargeStrain", "LinearElasticTensorNotation", "LinearElasticPlaneStress", "LinearElasticPlaneStrain"):
        return {"name": name, "p": {"E": rf(r, 0.5, 10), "nu": rf(r, 0.0, 0.45)}}
    if name in ("OgdenRoxburgh", "OgdenRoxburghAD"):
        return {"name": name, "p": {"mu": mu, "r": rf(r, 1.5, 4), "m": rf(r, 0.5, 2), "beta": rf(r, 0, 0.3), "bulk": bulk}}
    if name == "Plastic":
        return {"name": name, "p": {"lmbda": round(2 * mu, 4), "mu": mu, "sy": rf(r, 0.02, 0.08), "K": rf(r, 0.05, 0.5)}}
    if name == "Visco":
        return {"name": name, "p": {"mu": mu, "bulk": bulk, "mu_v": rf(r, 0.2, 1.0), "eta": rf(r, 0.5, 5), "dtime": rf(r, 0.1, 1)}}
    if name in TF_PLAIN:
        # three-field wrapper around a material whose energy is not split into isochoric and volumetric parts
        return {"name": name, "p": draw_model(r, name[3:])["p"]}
    if name in ("TF:Visco", "NI:Visco"):
        return {"name": name, "p": {"mu": mu, "bulk": bulk, "mu_v": rf(r, 0.2, 1.0), "eta": rf(r, 0.5, 5), "dtime": rf(r, 0.1, 1)}}
    if name in ("TF:OgdenRoxburgh", "NI:OgdenRoxburgh"):
        return {"name": name, "p": {"mu": mu, "r": rf(r, 1.5, 4), "m": rf(r, 0.5, 2), "beta": rf(r, 0, 0.3), "bulk": bulk}}
    if name == "ThreeField":
        return {"name": name, "p": {"mu": mu, "bulk": bulk}}
    if name == "NearlyIncompressible":
        return {"name": name, "p": {"mu": mu, "bulk": bulk}, "vol": r.choice(["default", "log", "log"])}
    if name == "NearlyIncompressibleAD":
        return {"name": name, "p": {"fun": "mooney_rivlin", "C10": round(mu / 3, 4), "C01": round(mu / 6, 4), "bulk": bulk}}
    if name in ("MAD:total_lagrange", "MAD:updated_lagrange"):
        return {"name": name, "p": {"mu": mu, "bulk": bulk}}
    if name == "MAD:morph":
        base = [0.039, 0.371, 0.174, 2.41, 0.0094, 6.84, 5.65, 0.244]
        return {"name": name, "p": {"p": [round(b * r.uniform(0.8, 1.2), 5) for b in base], "bulk": round(r.choice([5.0, 50.0]), 3)}}
    if name == "LinearElasticOrthotropic":
        E = [rf(r, 1.0, 5.0) for _ in range(3)]
        return {"name": name, "p": {"E": E, "nu": [rf(r, 0.05, 0.25) for _ in range(3)], "G": [rf(r, 0.3, 1.5) for _ in range(3)]}}
    if name.startswith("JAX:"):
        d = draw_model(r, "AD:" + name[4:])
        return {"name": name, "p": d["p"]}
    if name == "Composite":
        d = {"name": "AD:yeoh", "p": {"C10": round(mu / 2, 4), "C20": rf(r, -0.05, 0.05), "C30": rf(r, 0, 0.05), "bulk": bulk}}
        if r.random() < 0.6:
            d["third"] = {"mu": rf(r, 0.1, 1.0), "lmbda": rf(r, 0.2, 2.0)}  # a & b & c
        return d
    ad = {
        "AD:neo_hooke": {"mu": mu, "bulk": bulk},
        "AD:mooney_rivlin": {"C10": round(mu / 3, 4), "C01": round(mu / 6, 4), "bulk": bulk},
        "AD:yeoh": {"C10": round(mu / 2, 4), "C20": rf(r, -0.05, 0.05), "C30": rf(r, 0, 0.05), "bulk": bulk},
        "AD:ogden": {"mu": [mu, rf(r, 0.05, 0.3)], "alpha": [rf(r, 1.5, 2.5), rf(r, -2.5, -1.5)], "bulk": bulk},
        "AD:saint_venant_kirchhoff": {"mu": mu, "lmbda": bulk},
        "AD:arruda_boyce": {"C1": mu, "limit": rf(r, 2.5, 5), "bulk": bulk},
        "AD:third_order_deformation": {"C10": round(mu / 2, 4), "C01": rf(r, 0, 0.2), "C11": rf(r, -0.02, 0.02), "C20": rf(r, -0.02, 0.02), "C30": rf(r, 0, 0.02), "bulk": bulk},
        "AD:extended_tube": {"Gc": mu, "delta": rf(r, 0.0, 0.1), "Ge": rf(r, 0.1, 0.5), "beta": rf(r, 0.2, 1.0), "bulk": bulk},
        "AD:blatz_ko": {"mu": mu},
        "AD:lopez_pamies": {"mu": [mu, rf(r, 0.01, 0.1)], "alpha": [rf(r, 0.8, 1.2), rf(r, -2.5, -1.5)], "bulk": bulk},
        "AD:storakers": {"mu": [mu], "alpha": [rf(r, 1.5, 3.0)], "beta": [rf(r, 0.1, 0.4)]},
        "AD:anssari_benam_bucchi": {"mu": mu, "N": rf(r, 5, 20), "bulk": bulk},
        "AD:alexander": {"C1": mu, "C2": rf(r, 0.05, 0.2), "C3": rf(r, 0.05, 0.2), "gamma": rf(r, 0.5, 1.5), "k": rf(r, 0.1, 0.5), "bulk": bulk},
        "AD:miehe_goektepe_lulei": {"mu": mu, "N": rf(r, 20, 100), "U": rf(r, 5, 15), "p": rf(r, 1.5, 2.5), "q": rf(r, 0.1, 0.5), "bulk": bulk},
    }
    return {"name": name, "p": ad[name]}


def generate(seed, tier, k):
    r = Streams(seed)["gen"]
    if k % 5 == 4:
        # FE job with the monitoring wrapper
        doc = gen.gen_job(seed, profile=r.choice(["history", "general"]))
        doc["c03"] = {"mode": "job", "probe_seed": r.randrange(1 << 30), "rate": 0.25}
        return gen.maybe_units(doc, any_force=True)
    name = r.choice(MODELS + list(HISTORY) * 2 + ["NearlyIncompressible", "ThreeField"] * 2 + list(TF_PLAIN))
    # jax models cost ~2 s of jit per run: a few in the quick tier, a fifth of the thorough tier
    if r.random() < (0.2 if tier == "thorough" else 0.01):
        name = r.choice(JAX_MODELS)
    spec = draw_model(r, name)
    nops = r.choice([6, 10, 16, 24])
    amp = r.choice([0.05, 0.1, 0.2, 0.3])
    if name == "Plastic":
        amp = r.choice([0.02, 0.05, 0.1])
    path = r.choice(["mono", "cyclic", "updown", "random"])
    ops = []
    t = 0.0
    for i in range(nops):
        if path == "mono":
            t = (i + 1) / nops
        elif path == "cyclic":
            t = abs(np.sin(np.pi * 1.5 * (i + 1) / nops))
        elif path == "updown":
            t = 1 - abs(2 * (i + 1) / nops - 1)
        else:
            t = r.random()
        op = {"t": round(float(t), 5), "t2": round(r.random(), 5), "accept": r.random() < 0.7}
        if r.random() < 0.2:
            op["excursion"] = round(r.uniform(1.1, 1.6), 3)  # a rejected trial beyond the path
        ops.append(op)
    doc = {
        "kind": "c03",
        "seed": seed,
        "c03": {"mode": "point", "probe_seed": r.randrange(1 << 30)},
        "umat": spec,
        "model": name,
        "batch": [2, 3] if name.startswith("JAX:") else [r.choice([1, 2, 3]), r.choice([1, 2, 4])],
        "H_seed": r.randrange(1 << 30),
        "amp": amp,
        "ops": ops,
        "out_dirty": r.random() < 0.5,
        # half of the points of the batch follow another path (loading and unloading points in one call)
        "hetero": r.random() < 0.4,
        # the same model in another stress unit (all parameters of stress dimension scaled)
        "pscale": r.choice([1e-9, 1e-6, 1e6]) if r.random() < 0.25 else None,
        # parameter study on one object: public parameter attributes re-assigned between two operations
        "reparam": {"at": r.randrange(1, nops), "factor": r.choice([0.5, 1.5, 2.0])} if name in REPARAM and r.random() < 0.4 else None,
        "parallel": r.random() < 0.15 and name in ("NeoHooke", "NeoHookeCompressible", "ThreeField", "Volumetric", "LinearElasticLargeStrain"),
    }
    return doc


# ----------------------------------------------------------------------------------------
def build(spec):
    name = spec["name"]
    p = dict(spec.get("p", {}))
    if name == "Volumetric":
        return fem.Volumetric(bulk=p["bulk"], parallel=bool(spec.get("parallel")))
    if name == "LinearElasticOrthotropic":
        return fem.LinearElasticOrthotropic(E=p["E"], nu=p["nu"], G=p["G"])
    if name == "LinearElasticTensorNotation":
        return fem.constitution.LinearElasticTensorNotation(E=p["E"], nu=p["nu"], parallel=bool(spec.get("parallel")))
    if name == "LinearElasticPlaneStress":
        return fem.LinearElasticPlaneStress(E=p["E"], nu=p["nu"])
    if name == "LinearElasticPlaneStrain":
        return fem.constitution.LinearElasticPlaneStrain(E=p["E"], nu=p["nu"])
    if name == "MS:linear_elastic":
        return fem.MaterialStrain(material=fem.linear_elastic, λ=p["lmbda"], μ=p["mu"])
    if name == "MAD:morph":
        return fem.MaterialAD(fem.morph, p=p["p"], nstatevars=13) & fem.Volumetric(bulk=p["bulk"])
    if name in ("MAD:total_lagrange", "MAD:updated_lagrange"):
        import tensortrax.math as tm

        if name == "MAD:total_lagrange":

            @fem.total_lagrange
            def second_piola(F, mu, bulk):
                C = F.T @ F
                J = tm.linalg.det(F)
                return mu * tm.special.dev(tm.linalg.det(C) ** (-1 / 3) * C) @ tm.linalg.inv(C) + bulk * (J - 1) * J * tm.linalg.inv(C)

            return fem.MaterialAD(second_piola, mu=p["mu"], bulk=p["bulk"])

        @fem.updated_lagrange
        def kirchhoff(F, mu, bulk):
            J = tm.linalg.det(F)
            b = F @ F.T
            return mu * tm.special.dev(J ** (-2 / 3) * b) + bulk * (J - 1) * J * tm.base.eye(b)

        return fem.MaterialAD(kirchhoff, mu=p["mu"], bulk=p["bulk"])
    if name in TF_PLAIN:
        return fem.ThreeFieldVariation(build({"name": name[3:], "p": p}))
    if name in ("TF:Visco", "NI:Visco"):
        # mixed wrappers around an inner material whose state update is a rate equation
        visco = fem.Hyperelastic(fem.finite_strain_viscoelastic, mu=p["mu_v"], eta=p["eta"], dtime=p["dtime"], nstatevars=6)
        if name == "TF:Visco":
            return fem.ThreeFieldVariation(visco & fem.NeoHooke(mu=p["mu"], bulk=p["bulk"]))
        return fem.NearlyIncompressible(visco & fem.NeoHooke(mu=p["mu"]), bulk=p["bulk"])
    if name in ("TF:OgdenRoxburgh", "NI:OgdenRoxburgh"):
        pe = fem.OgdenRoxburgh(fem.NeoHooke(mu=p["mu"]), r=p["r"], m=p["m"], beta=p["beta"])
        if name == "TF:OgdenRoxburgh":
            return fem.ThreeFieldVariation(pe & fem.Volumetric(bulk=p["bulk"]))
        return fem.NearlyIncompressible(pe, bulk=p["bulk"])
    if name.startswith("JAX:"):
        import felupe.constitution.jax as fj

        bulk = p.pop("bulk", None)
        um = fj.Hyperelastic(getattr(fj.models.hyperelastic, name[4:]), **p)
        if bulk is not None:
            um = um & fem.Volumetric(bulk=bulk)
        return um
    return world.build_umat(spec)


class Probe:
    """Derivative and protocol monitors for one constitutive object."""

    def __init__(self, umat, spec, model, log, rng):
        self.umat = umat
        self.spec = spec
        self.model = model
        self.log = log
        self.rng = rng
        self.has_out_g = "out" in inspect.signature(umat.gradient).parameters
        self.has_out_h = "out" in inspect.signature(umat.hessian).parameters
        self.has_fun = hasattr(umat, "function") and model in ("NeoHooke", "NeoHookeNoBulk", "NeoHookeCompressible", "Volumetric")
        self.nfields = len(umat.x) - 1 if hasattr(umat, "x") else 1
        self.bufs = {"g": None, "h": None}

    def V(self, monitor, detail, site=None):
        raise Violation(PROP, monitor, detail, site=site or self.model)

    def call(self, kind, x, dirty=False):
        """umat.gradient / hessian with inputs-untouched check; optional dirty out buffer."""
        digs = [adigest(a) for a in x]
        kw = {}
        has_out = self.has_out_g if kind == "gradient" else self.has_out_h
        key = "g" if kind == "gradient" else "h"
        if has_out and dirty and self.bufs[key] is not None:
            buf = self.bufs[key]
            # leftovers of an earlier evaluation: finite garbage, or the NaN of a diverged iterate
            self.ndirty = getattr(self, "ndirty", 0) + 1
            buf[...] = np.nan if self.ndirty % 3 == 0 else 1234.5
            kw["out"] = buf
            self.log.count("out-buffer-dirty")
        res = getattr(self.umat, kind)(x, **kw)
        for k, (a, d) in enumerate(zip(x, digs)):
            if adigest(a) != d:
                what = "committed state variables" if k == len(x) - 1 else f"input {k}"
                self.V("inputs-untouched", f"{self.model}.{kind} modified its {what} in place", site=f"{self.model}.{kind}")
        if has_out and isinstance(res[0], np.ndarray) and res[0].flags.writeable:
            self.bufs[key] = res[0]
        return res

    def evaluate(self, x, dirty=False):
        """gradient and hessian at x with protocol checks; returns copies."""
        g1 = self.call("gradient", x, dirty)
        g1c = [None if a is None else np.array(a, copy=True) for a in g1]
        h1 = self.call("hessian", x, dirty)
        h1c = [None if a is None else np.array(a, copy=True) for a in h1]
        # idempotent: the same call again gives the same values (instance scratch is not history)
        g2 = self.call("gradient", x, False)
        for k, (a, b) in enumerate(zip(g1c, g2)):
            if a is None or b is None:
                continue
            ok, rel = close_exact_twin(a, np.asarray(b), rtol=1e-12, atol=1e-13 * (float(np.abs(a).max()) if a.size else 0.0) + 1e-300)
            if not ok:
                self.V("out-buffer" if dirty else "idempotent", f"{self.model}.gradient: {'result depends on what the reused out= buffer contained' if dirty else 'repeated call gives different output'} (output {k}, rel {rel:.2e})", site=f"{self.model}.gradient")
        h2 = self.call("hessian", x, False)
        for k, (a, b) in enumerate(zip(h1c, h2)):
            if a is None or b is None:
                continue
            ok, rel = close_exact_twin(a, np.asarray(b), rtol=1e-12, atol=1e-13 * (float(np.abs(a).max()) if a.size else 0.0) + 1e-300)
            if not ok:
                self.V("out-buffer" if dirty else "idempotent", f"{self.model}.hessian: {'result depends on what the reused out= buffer contained' if dirty else 'repeated call gives different output'} (block {k}, rel {rel:.2e})", site=f"{self.model}.hessian")
        return g1c, h1c

    # -- finite differences ----------------------------------------------------------------------
    def near_switch(self, x):
        """Documented non-smooth points that the generic kink rule cannot see reliably."""
        if self.model in ("OgdenRoxburgh", "OgdenRoxburghAD", "TF:OgdenRoxburgh", "NI:OgdenRoxburgh"):
            from .C15 import neo_hooke_energy

            p = self.spec["p"]
            # the isochoric Neo-Hooke energy is the same at F and at the modified (J / det F)^(1/3) F
            W = neo_hooke_energy(x[0], p["mu"])
            Wold = x[-1][0]
            band = 1e-3 * (p["m"] + p["beta"] * np.maximum(W, Wold))
            return bool(np.any((np.abs(W - Wold) < band) & (Wold > 1e-12 * float(p["mu"]))))
        return False

    def fd(self, x, g0, h0):
        """All first-order blocks of the hessian against central differences of the gradient."""
        if self.near_switch(x):
            self.log.count("probe-skipped-near-max-history-switch")
            return
        nf = self.nfields
        fields = x[:nf]
        sv = x[-1]
        if not all(np.all(np.isfinite(a)) for a in g0[:nf] if a is not None):
            self.log.count("probe-skipped-nonfinite")
            return
        # hessian block index for (i, j), upper triangle in row-major order
        pairs = [(i, j) for i in range(nf) for j in range(i, nf)]
        scale_all = max([float(np.abs(b).max()) for b in h0 if b is not None] + [1e-300])
        for j in range(nf):
            d = self.rng.normal(size=fields[j].shape)
            if j == 0 and self.model in ("LinearElastic",):
                pass
            d = d / max(np.linalg.norm(d.reshape(-1, *d.shape[-2:]), axis=0).max(), 1e-300)
            errs = {}
            kap = {}
            gs = {}
            for hh in (1e-5, 1e-6):
                xp = list(x)
                xm = list(x)
                xp[j] = fields[j] + hh * d
                xm[j] = fields[j] - hh * d
                gp = self.umat.gradient(xp)
                gm = self.umat.gradient(xm)
                gs[hh] = [None if (a is None or b is None) else (np.asarray(a) - np.asarray(b)) / (2 * hh) for a, b in zip(gp[:nf], gm[:nf])]
                kap[hh] = sum(float(np.abs((np.asarray(a) - g) / hh - (g - np.asarray(b)) / hh).max()) for a, b, g in zip(gp[:nf], gm[:nf], g0[:nf]) if a is not None)
            if not all(np.all(np.isfinite(a)) for hh in gs for a in gs[hh] if a is not None):
                self.log.count("probe-skipped-nonfinite")
                continue
            self.log.count("fd-hessian-probe")
            if nf > 1:
                self.log.count("mixed-block-probe")
            smooth = kap[1e-6] <= 0.3 * kap[1e-5] or kap[1e-6] < 1e-8 * scale_all
            if not smooth:
                self.log.count("kink-discarded")
                continue
            for i in range(nf):
                # block (i, j) or its transpose (j, i)
                if i <= j:
                    blk = h0[pairs.index((i, j))]
                    transposed = False
                else:
                    blk = h0[pairs.index((j, i))]
                    transposed = True
                ti = fields[i].ndim - 2
                tj = fields[j].ndim - 2
                if blk is None:
                    Ad = np.zeros_like(np.asarray(g0[i], dtype=float))
                else:
                    blk = np.asarray(blk)
                    li = "ij"[:ti]
                    lj = "kl"[:tj]
                    if not transposed:
                        Ad = np.einsum(f"{li}{lj}...,{lj}...->{li}...", blk, d)
                    else:
                        Ad = np.einsum(f"{lj}{li}...,{lj}...->{li}...", blk, d)
                e = {}
                for hh in (1e-5, 1e-6):
                    g = gs[hh][i]
                    if g is None:
                        g = np.zeros_like(Ad)
                    e[hh] = float(np.abs(Ad - g).max())
                err = min(e.values())
                sc = float(np.abs(Ad).max()) + float(np.abs(gs[1e-6][i]).max() if gs[1e-6][i] is not None else 0.0)
                if err > 2e-6 * sc + 1e-8 * scale_all + 1e-300:
                    if abs(e[1e-5] - e[1e-6]) > 0.25 * max(e.values()):
                        self.log.count("kink-discarded")
                        continue
                    # switching point exactly at the state (see C01): either branch is a valid tangent
                    jump = max(0.0, (10.0 * kap[1e-6] - kap[1e-5]) / 9.0)
                    if jump > 1e-8 * scale_all and err <= 2.0 * jump:
                        self.log.count("kink-discarded")
                        self.log.count("kink-discarded:switch-at-state")
                        continue
                    self.V(
                        "fd-hessian",
                        f"{self.model}: elasticity block ({i},{j}) : d differs from the central difference of the stress by {err:.3e} (scale {sc:.3e}; committed statevars {'non-zero' if sv.size and np.any(sv != 0) else 'virgin'})",
                        site=f"{self.model}.hessian[{i},{j}]",
                    )
        if sv.size and np.any(sv != 0):
            self.log.count("probe-at-stored-state")

    def fd_energy(self, x, g0):
        if not self.has_fun or self.nfields != 1:
            return
        F = x[0]
        d = self.rng.normal(size=F.shape)
        d /= np.abs(d).max()
        e = {}
        Pd = np.einsum("ij...,ij...->...", np.asarray(g0[0]), d)
        W0 = self.umat.function([F, x[-1]])[0]
        mod = 0.0
        for hh in (1e-5, 1e-6):
            Wp = self.umat.function([F + hh * d, x[-1]])[0]
            Wm = self.umat.function([F - hh * d, x[-1]])[0]
            e[hh] = float(np.abs(Pd - (Wp - Wm) / (2 * hh)).max())
            if hh == 1e-5:
                mod = float(np.abs(Wp + Wm - 2 * W0).max()) / hh**2  # d : A : d, the stiffness scale
        self.log.count("fd-gradient-probe")
        err = min(e.values())
        sc = float(np.abs(Pd).max()) + float(np.abs(np.asarray(g0[0])).max())
        if err > 2e-6 * sc + 1e-9 * max(mod, 1e-300):
            self.V("fd-gradient", f"{self.model}: stress : d differs from the central difference of the energy by {err:.3e} (scale {sc:.3e})", site=f"{self.model}.gradient")


# ----------------------------------------------------------------------------------------
POINT_STRESS_KEYS = dict(gen.STRESS_KEYS, **{"MS:linear_elastic": ["lmbda", "mu"], "Volumetric": ["bulk"], "LinearElasticTensorNotation": ["E"], "LinearElasticPlaneStress": ["E"], "LinearElasticPlaneStrain": ["E"], "TF:Visco": ["mu", "bulk", "mu_v", "eta"], "NI:Visco": ["mu", "bulk", "mu_v", "eta"], "TF:OgdenRoxburgh": ["mu", "bulk", "m"], "NI:OgdenRoxburgh": ["mu", "bulk", "m"], "MAD:total_lagrange": ["mu", "bulk"], "MAD:updated_lagrange": ["mu", "bulk"]})


def run_point(doc, log):
    spec = copy.deepcopy(doc["umat"])
    if doc.get("pscale") and spec["name"] in POINT_STRESS_KEYS:
        for key_ in POINT_STRESS_KEYS[spec["name"]]:
            if spec["p"].get(key_) is not None:
                spec["p"][key_] = gen._scale(spec["p"][key_], doc["pscale"])
        if spec.get("third"):
            spec["third"] = {k_: gen._scale(v_, doc["pscale"]) for k_, v_ in spec["third"].items()}
        log.count("parameters-in-another-stress-unit")
    if doc.get("parallel"):
        spec["parallel"] = True
    model = doc["model"]
    q, c = doc["batch"]
    # the same parameters typed as arrays (0-d, or one value per cell / quadrature point where the
    # model broadcasts them): the object must behave like the one built from floats (the cold
    # reference objects are), and must leave the caller's parameter arrays alone
    param_arrays = {}
    how = (None, "0d", None, "1c", None, "qc")[pick(doc["seed"], "param-arrays", 6)]
    if how and model in REPARAM and not doc.get("parallel"):
        if how != "0d" and model not in ("LinearElastic", "Volumetric"):
            how = "0d"
        spec_t = copy.deepcopy(spec)
        for attr in REPARAM[model]:
            v = spec_t["p"].get(attr)
            if v is None:
                continue
            arr = np.array(float(v)) if how == "0d" else np.full((1, c) if how == "1c" else (q, c), float(v))
            spec_t["p"][attr] = arr
            param_arrays[attr] = (arr, adigest(arr))
        umat = build(spec_t)
        log.count("parameters-as-arrays")
    else:
        umat = build(spec)
    rng = np.random.default_rng(doc["c03"]["probe_seed"])
    pr = Probe(umat, spec, model, log, rng)
    Hrng = np.random.default_rng(doc["H_seed"])
    nd = umat.x[0].shape[0] if hasattr(umat, "x") else (2 if model in ("LinearElasticPlaneStress", "LinearElasticPlaneStrain") else 3)
    H = Hrng.normal(size=(nd, nd, q, c))
    H /= np.abs(H).max()
    if pick(doc["seed"], "degenerate-states", 4) == 0:
        # special but legal states: principal stretches that coincide (uniaxial, equi-biaxial, purely
        # volumetric deformation) at three of four points of the batch, a generic state at the fourth
        a_ = Hrng.uniform(0.3, 1.0, size=(q, c))
        b_ = Hrng.uniform(-0.5, 0.3, size=(q, c))
        for n_, (qi, ci) in enumerate(np.ndindex(q, c)):
            kind_ = n_ % 4
            if kind_ == 3:
                continue
            dg = [a_[qi, ci], b_[qi, ci], b_[qi, ci]] if kind_ == 0 else ([a_[qi, ci]] * 3 if kind_ == 1 else [a_[qi, ci], a_[qi, ci], b_[qi, ci]])
            H[:, :, qi, ci] = np.diag(dg[:nd])
        log.count("states-with-coinciding-stretches")
    nsv = umat.x[-1].shape[0] if hasattr(umat, "x") else 0
    sv = np.zeros((nsv, q, c))
    mixed = model in MIXED
    amp = doc["amp"]
    sig = []
    rejected_then_commit = False
    had_reject = False
    eye = np.eye(nd).reshape(nd, nd, 1, 1)
    # like a solid body, the caller re-uses its kinematics buffers: the same array objects are
    # handed to the material in every call, with new values written in place
    Fbuf = np.zeros((nd, nd, q, c))
    pbuf = np.zeros((q, c))
    Jbuf = np.ones((q, c))
    cold_spec = dict(spec)
    for k, op in enumerate(doc["ops"]):
        rp = doc.get("reparam")
        if rp and k == rp["at"]:
            cold_spec = copy.deepcopy(cold_spec)
            for attr in REPARAM[model]:
                new = getattr(umat, attr) * rp["factor"]
                setattr(umat, attr, new)
                cold_spec["p"][attr] = new
            pr.spec = cold_spec
            log.count("parameters-reassigned")
        t = op["t"] * op.get("excursion", 1.0)
        if doc.get("hetero"):
            alt = (np.arange(q * c).reshape(q, c) % 2 == 1)
            tt = np.where(alt, op.get("t2", t), t)
            F = eye + amp * tt * H
            log.count("heterogeneous-batch")
        else:
            F = eye + amp * t * H
        J = np.linalg.det(np.moveaxis(F, (0, 1), (-2, -1)))
        if J.min() < 0.3:
            log.count("op-skipped-domain")
            continue
        Fbuf[...] = F
        F = Fbuf
        if mixed:
            pbuf[...] = 0.1 * Hrng.normal(size=(q, c)) * t
            Jbuf[...] = J * (1 + 0.02 * Hrng.normal(size=(q, c)) * t)
            x = [F, pbuf, Jbuf, sv]
        else:
            x = [F, sv]
        if k % 4 == 2:
            # a failed / non-finite evaluation in between (diverged iterate): it must leave nothing
            # behind in the object that a later evaluation could pick up
            bad = [np.array(a, copy=True) for a in x]
            bad[0][...] = np.nan
            for kind_ in ("gradient", "hessian"):
                try:
                    getattr(umat, kind_)(bad)
                except Exception:
                    pass
            log.count("poisoned-call-in-between")
        if k % 3 == 1 and not model.startswith("JAX:"):
            # the elasticity requested first at a new state (no stress evaluation in between)
            h_first = [None if a is None else np.array(a, copy=True) for a in umat.hessian(x)]
            cold = build(cold_spec)
            h_cold = cold.hessian([np.array(a, copy=True) for a in x])
            for kb, (a, b_) in enumerate(zip(h_first, h_cold)):
                if a is None or b_ is None:
                    continue
                b_ = np.asarray(b_)
                if a.shape != b_.shape:
                    # a constant elasticity may come with singleton batch axes
                    try:
                        a, b_ = np.broadcast_arrays(a, b_)
                    except ValueError:
                        pass
                ok, rel = close_exact_twin(a, np.asarray(b_), rtol=1e-10, atol=1e-12 * float(np.abs(np.asarray(b_)).max()) + 1e-300)
                if not ok:
                    raise Violation(PROP, "call-history", f"{model}.hessian requested first at a new state (inputs updated in place, no gradient call in between) differs from a fresh object's result (block {kb}, rel {rel:.2e})", site=f"{model}.hessian-first")
            log.count("hessian-first-at-new-state")
        svd = adigest(sv)
        dirty = bool(doc.get("out_dirty")) and k % 2 == 1
        g, h = pr.evaluate(x, dirty=dirty)
        if adigest(sv) != svd:
            raise Violation(PROP, "inputs-untouched", f"{model}: committed state variables changed during a trial evaluation", site=f"{model}.trial")
        if all(a is None or np.all(np.isfinite(a)) for a in g[:-1]):
            pr.fd(x, g, h)
            pr.fd_energy(x, g)
        else:
            log.count("probe-skipped-nonfinite")
        sv_new = g[-1]
        if sv_new is not None and nsv and not model.startswith("JAX:"):
            # the returned stress is the caller's (the nearly-incompressible formulations add their
            # pressure term to it in place): changing it leaves the returned new state variables alone
            raw_ = umat.gradient([None if a is None else np.array(a, copy=True) for a in x])
            if isinstance(raw_[0], np.ndarray) and raw_[0].flags.writeable and raw_[-1] is not None:
                dsv_ = adigest(np.asarray(raw_[-1]))
                raw_[0] += 1.0
                if adigest(np.asarray(raw_[-1])) != dsv_:
                    raise Violation(PROP, "inputs-untouched", f"{model}: the new state variables returned by gradient() change when the caller modifies the returned stress in place (they share memory)", site=f"{model}.stress-aliases-state")
                log.count("returned-stress-modified-by-the-caller")
        # the finite-difference probes called the object with other arrays; a solid body's last call
        # at this state is one with its own buffers
        umat.gradient(x) if k % 2 == 0 else umat.hessian(x)
        log.ev("op", k=k, t=t, accept=op["accept"], g=g[0])
        if model == "Plastic" and sv_new is not None:
            log.count("plastic-loading-point", int((np.asarray(sv_new)[0] > sv[0]).sum()))
        if model in ("OgdenRoxburgh", "OgdenRoxburghAD") and sv_new is not None:
            log.count("unloading-point", int((np.asarray(sv_new)[0] <= sv[0]).sum() if np.any(sv[0] > 0) else 0))
        accept = op["accept"] and "excursion" not in op
        if accept:
            if sv_new is not None and nsv:
                if np.shares_memory(sv_new, sv):
                    log.count("probe:trial-aliases-committed")
                sv = np.array(sv_new, copy=True)
                if model == "MS:linear_elastic" and not mixed:
                    # continuation from the state just committed with an increment of a few billionths
                    # (a stiff part at tiny strains, a very fine load step): the stress follows the
                    # increment - linear law, so the secant over the tiny step is the elasticity
                    dF_ = 3e-9 * rng.normal(size=F.shape)
                    s0_ = np.array(umat.gradient([np.array(F, copy=True), sv.copy()])[0], copy=True)
                    s1_ = np.array(umat.gradient([F + dF_, sv.copy()])[0], copy=True)
                    A_ = np.asarray(umat.hessian([np.array(F, copy=True), sv.copy()])[0])
                    pred_ = np.einsum("ijkl...,kl...->ij...", np.broadcast_to(A_, A_.shape[:4] + F.shape[2:]), dF_)
                    err_ = float(np.abs((s1_ - s0_) - pred_).max())
                    ref_ = float(np.abs(pred_).max())
                    if err_ > 1e-3 * ref_ + 1e-13 * float(np.abs(s0_).max()):
                        raise Violation(PROP, "fd-hessian", f"{model}: continued from the committed state with a strain increment of 3e-9 the stress changes by {float(np.abs(s1_ - s0_).max()):.3e}, elasticity : increment is {ref_:.3e}", site=f"{model}.tiny-increment")
                    log.count("tiny-increment-from-committed-state")
            if had_reject:
                rejected_then_commit = True
                log.count("reject-then-commit")
            sig.append("c")
        else:
            had_reject = True
            sig.append("r")
    for attr, (arr, dig) in param_arrays.items():
        if adigest(arr) != dig:
            raise Violation(PROP, "inputs-untouched", f"{model}: the parameter array {attr!r} handed to the constructor was modified by evaluations", site=f"{model}.parameters")
    stored = log.counters.get("probe-at-stored-state", 0) > 0
    return {
        "signature": f"point|{model}|{''.join(sig)}|{doc['batch']}|{int(bool(doc.get('out_dirty')))}",
        "nontrivial": bool(stored or log.counters.get("out-buffer-dirty", 0) or rejected_then_commit),
        "faults_fired": [],
        "sim": {"operations": len(doc["ops"]), "derivative_probes": log.counters.get("fd-hessian-probe", 0)},
    }


class JobUmatMonitor(jobsim.Monitor):
    """The same monitors between body and material inside FE job histories (S8 seam)."""

    def __init__(self, log, doc):
        self.log = log
        self.doc = doc
        self.rng = np.random.default_rng(doc["c03"]["probe_seed"])
        self.probes = {}
        self.busy = False
        self.n = 0

    def on_umat(self, eng, k, kind, inner, x, kw):
        if self.busy:
            return None
        self.n += 1
        digs = [adigest(a) for a in x]
        res = getattr(inner, kind)(x, **kw)
        for i, (a, d) in enumerate(zip(x, digs)):
            if adigest(a) != d:
                what = "committed state variables" if i == len(x) - 1 else f"input {i}"
                raise Violation(PROP, "inputs-untouched", f"{type(inner).__name__}.{kind} modified its {what} in place (FE job, item {k})", site=f"job.{self.doc['items'][k]['umat']['name']}.{kind}")
        self.log.count("job-umat-call-monitored")
        if kind == "hessian" and self.rng.random() < self.doc["c03"]["rate"]:
            spec = self.doc["items"][k]["umat"]
            model = spec["name"]
            pr = self.probes.get(k)
            if pr is None:
                pr = self.probes[k] = Probe(inner, spec, model, self.log, self.rng)
            self.busy = True
            try:
                xs = [np.array(a, copy=True) for a in x]
                # dual fields arrive as (1, q, c); the mixed wrappers are elementwise in p and J
                for j in range(1, len(xs) - 1):
                    if xs[j].ndim == 3 and xs[j].shape[0] == 1:
                        xs[j] = xs[j][0]
                g0 = inner.gradient(xs)
                g0 = [None if a is None else np.array(a, copy=True) for a in g0]
                h0 = [None if a is None else np.array(a, copy=True) for a in inner.hessian(xs)]
                if all(a is None or np.all(np.isfinite(a)) for a in g0[:-1]):
                    J = np.linalg.det(np.moveaxis(xs[0], (0, 1), (-2, -1))) if xs[0].shape[0] == xs[0].shape[1] else np.array([1.0])
                    if J.min() > 0.2:
                        pr.fd(xs, g0, h0)
            finally:
                self.busy = False
        return res


def run_job(doc, log):
    dd = copy.deepcopy(doc)
    holder = {}

    def wrap(k, um, spec):
        return jobsim.wrap_umat(um, lambda *a: holder["eng"].umat_hook(k)(*a))

    w = world.World(dd, umat_wrap=wrap)
    mon = JobUmatMonitor(log, dd)
    eng = jobsim.Engine(w, dd, log, monitors=[mon])
    holder["eng"] = eng
    with eng:
        job, exc = eng.run_job()
    nconv = len(eng.callbacks)
    return {
        "signature": "job|" + "+".join(i["type"] + (":" + i["umat"]["name"] if "umat" in i else "") for i in doc["items"]) + f"|{doc['field']['kind']}|{nconv}",
        "nontrivial": bool(log.counters.get("probe-at-stored-state", 0) or (nconv >= 1 and mon.n > 0)),
        "faults_fired": [],
        "sim": {"substeps_converged": nconv, "umat_calls": mon.n},
    }


def run(doc, log):
    if doc["c03"]["mode"] == "job":
        return run_job(doc, log)
    return run_point(doc, log)


def shrink(doc):
    out = []
    if doc["c03"]["mode"] == "job":
        from .C07 import shrink as s7

        return s7(doc)
    n = len(doc["ops"])
    for cut in (n // 2, n - 1):
        if 0 < cut < n:
            d = copy.deepcopy(doc)
            d["ops"] = d["ops"][:cut]
            out.append(d)
    for i in range(n):
        d = copy.deepcopy(doc)
        d["ops"].pop(i)
        out.append(d)
    if doc["batch"] != [1, 1] and not doc["model"].startswith("JAX:"):
        d = copy.deepcopy(doc)
        d["batch"] = [1, 1]
        out.append(d)
    for key in ("out_dirty", "parallel"):
        if doc.get(key):
            d = copy.deepcopy(doc)
            d[key] = False
            out.append(d)
    return out
