"""C09 - homogeneous deformation problems are solved exactly, independent of the mesh.

Simulated: CharacteristicCurve / Job histories on displacement patch tests (affine map on the
whole boundary) and on the uniaxial / biaxial load cases over element families, mesh
densities and interior distortion, 3D and plane strain, with seeded ramp subdivisions
(uniform, non-uniform, repeated values, load-unload-reload), twin jobs with another
subdivision, and the linear solver exact or inexact (F3).
Oracles are evaluated at every converged substep against an analytic model built from
independently coded energy functions.
"""
import copy

import numpy as np

import felupe as fem

from .. import gen, jobsim, refmodel, world
from ..kernel import Discard, EventLog, InjectedFault, Streams, Violation, adigest, origin, pick
from .C15 import defgrad

PROP = "C09"


def sig12(x):
    """Twelve significant digits (values derived inside run() from a possibly re-scaled document)."""
    return float(f"{float(x):.12g}")

EVIDENCE = {
    "probes_expected": ["affine-field-checked", "uniform-F-checked", "curve-y-checked", "curve-x-checked", "twin-compared", "history-immutable-checked", "distorted-mesh", "curved-tri6", "fault:solver_inexact", "material-curve-checked", "load-unload", "clamp-released-on-same-step", "x0-toplevel-container", "paused-by-callback-then-evaluated-again"],
    "clauses_sampled_only": ["'material-level uniaxial, planar and biaxial curves agree with the same analytic stresses' (umat.view()) is a pure function of the material; it is evaluated once per run as sampling"],
}

MATERIALS = ["NeoHooke", "NeoHooke", "NeoHookeCompressible", "AD:neo_hooke", "AD:mooney_rivlin", "AD:yeoh", "AD:ogden", "AD:saint_venant_kirchhoff", "NI"]


def draw_material(r):
    name = r.choice(MATERIALS)
    mu = gen.rfloat(r, 0.5, 2.0)
    bulk = round(mu * r.choice([2.0, 5.0, 20.0, 50.0]), 4)
    if name == "NI":
        return {"name": "NI", "p": {"mu": mu, "bulk": round(mu * r.choice([20.0, 100.0, 500.0]), 3)}}
    if name == "NeoHooke":
        return {"name": name, "p": {"mu": mu, "bulk": bulk}}
    if name == "NeoHookeCompressible":
        return {"name": name, "p": {"mu": mu, "lmbda": bulk}}
    if name == "AD:neo_hooke":
        return {"name": name, "p": {"mu": mu, "bulk": bulk}}
    if name == "AD:mooney_rivlin":
        return {"name": name, "p": {"C10": round(mu / 3, 4), "C01": round(mu / 6, 4), "bulk": bulk}}
    if name == "AD:yeoh":
        return {"name": name, "p": {"C10": round(mu / 2, 4), "C20": gen.rfloat(r, -0.02, 0.05), "C30": gen.rfloat(r, 0.0, 0.05), "bulk": bulk}}
    if name == "AD:ogden":
        return {"name": name, "p": {"mu": [mu, gen.rfloat(r, 0.05, 0.3)], "alpha": [gen.rfloat(r, 1.5, 2.5), gen.rfloat(r, -2.5, -1.5)], "bulk": bulk}}
    if name == "AD:saint_venant_kirchhoff":
        return {"name": name, "p": {"mu": mu, "lmbda": bulk}}


def generate(seed, tier, k):
    S = Streams(seed)
    r = S["gen"]
    dim = r.choice([2, 3, 3])
    mat = draw_material(r)
    fam = r.choice(["linear", "linear", "quadratic", "full", "simplex", "simplex2"])
    if mat["name"] == "NI":
        fam = "linear"
    mesh = gen.gen_mesh(r, dim=dim, allow=(fam,), max_cells=8 if dim == 3 else 12)
    if mesh.get("perturb") and r.random() < 0.5 and dim == 2 and fam in ("quadratic", "full", "simplex2"):
        # curved edges: mid-nodes are moved as well (2D only: the default rules integrate
        # the curved geometry terms of the patch test exactly there)
        mesh["perturb_before_convert"] = False
        mesh["perturb"]["amp"] = min(mesh["perturb"]["amp"], 0.1)
    case = r.choice(["patch", "uniaxial", "uniaxial", "biaxial"])
    lagrange = r.random() < 0.08
    if lagrange:
        # one arbitrary-order Lagrange cell (order 2 or 3; with the element's VTK or plain grid numbering),
        # interior nodes moved: the displacement patch test
        # (3D: order 2 only - the default rule of a cubic Lagrange hexahedron, 4^3 Gauss points, is exact to
        # degree 7, the patch test with moved interior nodes needs degree 3 p - 1 = 8)
        order = 2 if dim == 3 else r.choice([2, 3, 4])
        permute = r.random() < 0.5
        mesh = {"gen": "LagrangeCell", "n": [order + 1] * dim, "order": order, "dim": dim, "permute": permute, "a": [0.0] * dim, "b": [gen.rfloat(r, 0.6, 1.6, 2) for _ in range(dim)], "perturb": {"seed": r.randrange(1 << 30), "amp": r.choice([0.1, 0.2, 0.3])}}
        case = "patch"
    doc = {"kind": "job", "seed": seed, "profile": "homogeneous", "mesh": mesh, "field": {"kind": "Field" if dim == 3 else "PlaneStrain"}}
    if lagrange:
        doc["region"] = {"order": mesh["order"], "permute": mesh["permute"]}
    if pick(seed, "region-look", 4) == 0:
        # earlier in the process someone looked at another region of the same template (plotted the
        # quadrature points scaled by their weights, copied the region, inverted the scheme)
        doc["region"] = dict(doc.get("region") or {}, look=True)
    if mat["name"] == "NI":
        doc["items"] = [{"type": "SolidBodyNearlyIncompressible", "umat": {"name": "NeoHooke", "p": {"mu": mat["p"]["mu"]}}, "bulk": mat["p"]["bulk"]}]
    else:
        doc["items"] = [{"type": "SolidBody", "umat": mat}]
    doc["material"] = mat
    n = r.choice([1, 2, 3, 4, 6])
    shape = r.choice(["mono", "mono", "nonuniform", "repeat", "updown", "cyclic"])
    if case == "patch":
        H = [[gen.rfloat(r, -0.25, 0.25) for _ in range(dim)] for _ in range(dim)]
        vals = gen.ramp_values(r, n, 1.0, shape if shape in ("mono", "nonuniform", "repeat") else "mono")
        doc["bc"] = {"case": "patch", "init": "scalar" if pick(seed, "patch-init", 2) else "array"}
        doc["steps"] = [{"ramp": [{"target": "bc:patch", "values": vals, "H": H}]}]
    elif case == "uniaxial":
        e1 = r.choice([-0.25, -0.15, 0.1, 0.2, 0.3, 0.45])
        ax = r.randrange(dim)
        vals = gen.ramp_values(r, n, round(e1 * mesh["b"][ax], 6), shape)
        doc["bc"] = {"case": "uniaxial", "clamped": False, "sym": True, "axis": ax}
        if pick(seed, "sym-flags", 3) == 0:
            # no symmetry plane normal to the loading axis: the left end face is held instead;
            # the flags given per axis, typed as bools, ints or an array
            doc["bc"]["sym"] = [a_ != ax for a_ in range(3)]
            doc["bc"]["sym_type"] = ("bool", "int", "ndarray-bool", "ndarray-int")[pick(seed, "sym-type", 4)]
        doc["steps"] = [{"ramp": [{"target": "bc:move", "values": vals}]}]
    else:
        e1 = r.choice([-0.15, 0.1, 0.2, 0.3])
        e2 = r.choice([-0.1, 0.05, 0.15, 0.3])
        t = gen.ramp_values(r, n, 1.0, shape if shape in ("mono", "nonuniform", "repeat") else "mono")
        import itertools

        axes = list(r.choice(list(itertools.permutations(range(dim), 2))))
        doc["bc"] = {"case": "biaxial", "clampes": [False, False], "sym": True, "axes": axes}
        doc["steps"] = [{"ramp": [{"target": "bc:move", "values": [round(e1 * mesh["b"][axes[0]] * x, 6) for x in t]}, {"target": "bc:move2", "values": [round(e2 * mesh["b"][axes[1]] * x, 6) for x in t]}]}]
    if case == "uniaxial" and doc["bc"].get("sym") is True and not lagrange and pick(seed, "translated-body", 4) == 0:
        # the body somewhere else in space: different offsets along every axis
        doc["mesh"]["translate"] = [0.5, -0.7, 0.2][:dim] if pick(seed, "translated-body-where", 2) else [-1.25, 1.0, 3.5][:dim]
    if case == "uniaxial" and doc["bc"].get("sym") is True and doc["bc"].get("axis", 0) != 0 and not lagrange and "translate" not in doc["mesh"] and not doc["mesh"].get("a", [0])[0] and pick(seed, "rot90", 3) == 0:
        doc["mesh"]["rot90"] = True
    fine = pick(seed, "fine-ramp", 5)
    if fine in (0, 1) and case != "patch":
        # a finely resolved section at the end of the ramp (increments of a few millionths of the
        # value), or - fine == 1 - a long ramp of more than a dozen equal increments
        for rr_ in doc["steps"][0]["ramp"]:
            v_ = rr_["values"]
            if fine == 0:
                rr_["values"] = v_ + [round(float(v_[-1] * (1 + 3e-6 * i_)), 12) for i_ in (1, 2, 3)]
            else:
                top_ = v_[-1] if v_[-1] != 0 else max(v_, key=abs)
                rr_["values"] = [round(float(top_ * (i_ + 1) / 14), 8) for i_ in range(14)]
    doc["newton"] = {}
    if r.random() < 0.3:
        doc["newton"]["tol"] = r.choice([1e-8, 1e-10, 1e-6])
    doc["knobs"] = {"verbose": False, "clock": "normal", "clock_seed": 0}
    doc["faults"] = []
    if k % 3 == 2:
        doc["faults"].append({"kind": "solver_inexact", "rel": r.choice([1e-12, 1e-9, 1e-6, 1e-4, 1e-3]), "seed": r.randrange(1000)})
    doc["c09"] = {"twin": r.random() < 0.5, "twin_seed": r.randrange(1 << 30), "view": r.random() < 0.3, "curve_items": r.random() < 0.3, "x0_toplevel": case != "patch" and r.random() < 0.25}
    nsub_ = len(doc["steps"][0]["ramp"][0]["values"])
    if case != "patch" and r.random() < 0.2:
        doc["faults"].append({"kind": r.choice(["callback_raise", "callback_kbint"]), "step": 0, "substep": r.randrange(nsub_)})
        doc["c09"]["resume"] = True
    if case == "uniaxial" and r.random() < 0.25:
        # two-phase history on the same Step object: first with the loaded face clamped (not
        # homogeneous, no oracle), then the clamp is released and the ramp continues
        doc["c09"]["release_clamp"] = True
        doc["mesh"].pop("translate", None)  # (dof.uniaxial puts its symmetry planes through the origin)
        doc["mesh"].pop("rot90", None)
        doc["c09"].pop("resume", None)
        doc["faults"] = [f for f in doc["faults"] if not f["kind"].startswith("callback")]
        doc["c09"]["twin"] = False
        doc["bc"]["clamped"] = True
    if r.random() < 0.12:
        # another model of the same kind was post-processed earlier in the process
        doc["prelude"] = [r.choice(["extrapolate", "extrapolate", "project"])]
    return gen.maybe_units(doc)


# ----------------------------------------------------------------------------------------
def analytic_state(doc, w, level):
    """(Fbar as a diagonal in mesh axes, P along the first load axis) of the homogeneous
    solution for the prescribed values of one substep."""
    case = doc["bc"]["case"]
    ps = doc["field"]["kind"] == "PlaneStrain"
    mat = doc["material"]
    spec = mat if mat["name"] != "NI" else {"name": "NeoHooke", "p": mat["p"]}
    b = doc["mesh"]["b"]
    dim = len(b)
    diag = np.ones(3)
    if case == "uniaxial":
        a = doc["bc"].get("axis", 0)
        l1 = 1 + level[0] / b[a]
        l, P = refmodel.homogeneous(spec, "uniaxial", (l1,), planestrain=ps)
        # principal order of the model: (load, lateral, lateral / out-of-plane)
        others = [k for k in range(dim) if k != a]
        diag[a] = l[0]
        diag[others[0]] = l[1]
        if dim == 3:
            diag[others[1]] = l[2]
    else:
        a1, a2 = doc["bc"].get("axes", (0, 1))
        l1 = 1 + level[0] / b[a1]
        l2 = 1 + level[1] / b[a2]
        l, P = refmodel.homogeneous(spec, "biaxial", (l1, l2), planestrain=ps)
        diag[a1] = l[0]
        diag[a2] = l[1]
        if dim == 3:
            diag[3 - a1 - a2] = l[2]
    return np.diag(diag), P


def load_axis(doc):
    if doc["bc"]["case"] == "uniaxial":
        return doc["bc"].get("axis", 0)
    return doc["bc"].get("axes", (0, 1))[0]


class C09Monitor(jobsim.Monitor):
    def __init__(self, log, doc, w):
        self.log = log
        self.doc = doc
        self.w = w
        self.records = []

    def V(self, monitor, detail, site=None, fault=None):
        raise Violation(PROP, monitor, detail, site=site, fault=fault)

    def on_callback(self, eng, rec):
        doc, w = self.doc, self.w
        j, i = rec["step"], rec["substep"]
        u = rec["x"][0]
        X = w.mesh.points
        dim = w.mesh.dim
        case = doc["bc"]["case"]
        tol = doc.get("newton", {}).get("tol", 1.5e-8)
        slack = max(1.0, tol / 1.5e-8)
        fk = "solver_inexact" if any(f["kind"] == "solver_inexact" for f in eng.fired) else None
        fam = f"{w.mesh.cell_type}" + ("/curved" if doc["mesh"].get("perturb") and not doc["mesh"].get("perturb_before_convert", True) else "")
        ramp = doc["steps"][j]["ramp"]
        if case == "patch":
            H = np.asarray(ramp[0]["H"], dtype=float)
            t = ramp[0]["values"][i]
            Fbar = np.eye(dim) + t * H
            P = None
        else:
            level = [r["values"][i] for r in ramp]
            F3, P = analytic_state(doc, w, level)
            Fbar = F3[:dim, :dim]
        X0 = np.asarray((list(doc["mesh"].get("translate") or []) + [0.0] * dim)[:dim])
        uref = (X - X0) @ (Fbar - np.eye(dim)).T
        # converged-state tolerance (DESIGN section 6); the floor of the scale stands for the
        # load-free states of cyclic ramps, where only the Newton tolerance is left
        scale = max(float(np.abs(uref).max()), 0.05 * float(np.max(doc["mesh"]["b"])))
        d = float(np.abs(u - uref).max())
        if d > (2e-6 * slack) * scale + 1e-10 and doc.get("material", {}).get("name") == "AD:saint_venant_kirchhoff":
            # the Saint-Venant Kirchhoff energy depends on C = F^T F only: configurations with
            # inverted cells (det F < 0) are equilibria with a positive definite tangent as well,
            # the homogeneous solution is not the only one Newton can reach from a distorted start
            Fq = defgrad(w, rec["x"])
            detF = np.linalg.det(np.moveaxis(Fq, (0, 1), (-2, -1)))
            if detF.min() <= 0:
                raise Discard("inverted-equilibrium-of-svk")
            if doc.get("c09", {}).get("release_clamp"):
                # the same non-uniqueness without inversion: started from the strongly non-homogeneous
                # clamped state, Newton may settle on another stable equilibrium of this (not
                # polyconvex) material; the homogeneous path from the undeformed state stays checked
                raise Discard("other-equilibrium-of-svk-from-distorted-start")
        if d > (2e-6 * slack) * scale + 1e-10 and doc.get("c09", {}).get("release_clamp"):
            # started from the strongly non-homogeneous clamped state with a large step, Newton can settle
            # on a configuration with inverted cells (det F <= 0; the volumetric terms of these energies
            # are finite there): outside the admissible deformations the uniqueness of the homogeneous
            # solution is not given - not judged (found by `vp check` with VERIF_SEED=1, Yeoh, linear triangles)
            Fq = defgrad(w, rec["x"])
            if np.linalg.det(np.moveaxis(Fq, (0, 1), (-2, -1))).min() <= 0:
                raise Discard("inverted-equilibrium-from-clamped-start")
        if d > (2e-6 * slack) * scale + 1e-10:
            self.V("affine-field", f"substep ({j},{i}): displacement field differs from the affine map by {d:.3e} (scale {scale:.3e}, {fam}, {case})", site=f"field[{w.mesh.cell_type}]", fault=fk)
        self.log.count("affine-field-checked")
        F = defgrad(w, rec["x"])
        dev = float(np.abs(F - F.mean(axis=(-1, -2), keepdims=True)).max())
        if dev > (2e-6 * slack) * max(1.0, scale) + 1e-10:
            self.V("uniform-F", f"substep ({j},{i}): deformation gradient is not uniform (max deviation {dev:.3e}, {fam})", site=f"F[{w.mesh.cell_type}]", fault=fk)
        self.log.count("uniform-F-checked")
        self.records.append({"step": j, "substep": i, "level": [r["values"][i] for r in ramp], "u": u.copy(), "P": P})


def simulate_release(doc, log):
    """Phase 1 with the clamp, phase 2 (checked) after `del step.boundaries['right']`."""
    dd = copy.deepcopy(doc)
    w = world.World(dd)
    eng1 = jobsim.Engine(w, dd, EventLog(), monitors=[])
    with eng1:
        job1, exc1 = eng1.run_job(job_cls=fem.CharacteristicCurve, job_kwargs={"boundary": w.ramp_bc["move"]})
    if exc1 is not None:
        if isinstance(exc1, ValueError):
            raise Discard("clamped-phase-did-not-converge")
        raise exc1
    step = w.steps[0]
    if "right" not in step.boundaries:
        raise Discard("no-clamp-boundary")
    del step.boundaries["right"]
    step.boundaries.pop("left-yz", None)  # the clamp of the held end face (no symmetry plane there)
    vals = dd["steps"][0]["ramp"][0]["values"]
    last = vals[-1]
    new_vals = [sig12(0.6 * last), sig12(1.1 * last), sig12(last)]
    dd["steps"][0]["ramp"][0]["values"] = new_vals
    new = w._build_step(dd["steps"][0])
    step.ramp = new.ramp
    step.nsubsteps = new.nsubsteps
    mon = C09Monitor(log, dd, w)
    eng = jobsim.Engine(w, dd, log, monitors=[mon])
    with eng:
        job, exc = eng.run_job(job_cls=fem.CharacteristicCurve, job_kwargs={"boundary": w.ramp_bc["move"]})
    log.count("clamp-released-on-same-step")
    return w, eng, mon, job, exc, dd


def simulate(doc, log, monitors=True):
    dd = copy.deepcopy(doc)
    w = world.World(dd)
    mon = C09Monitor(log, dd, w)
    eng = jobsim.Engine(w, dd, log, monitors=[mon] if monitors else [])
    case = dd["bc"]["case"]
    with eng:
        if case == "patch":
            job, exc = eng.run_job()
        else:
            jk = {"boundary": w.ramp_bc["move"]}
            if dd["c09"].get("curve_items"):
                jk["items"] = [w.items[0]]  # reaction force from the forces of the listed items
            ekw = {}
            if dd["c09"].get("x0_toplevel"):
                # multi-body workflow: a separate top-level field container carries the boundaries
                # and is handed over as x0; the body keeps its own field container
                top = w.field.copy()
                for b_ in w.boundaries.values():
                    k_ = [q for q, f_ in enumerate(w.field.fields) if f_ is b_.field][0]
                    b_.field = top.fields[k_]
                ekw["x0"] = top
                log.count("x0-toplevel-container")
            job, exc = eng.run_job(job_cls=fem.CharacteristicCurve, job_kwargs=jk, **ekw)
            if dd["c09"].get("resume") and exc is not None and origin(exc) == "injected":
                # the user's callback stopped the job (pause); the same job object is evaluated
                # again: every record it holds is still a (displacement, force) pair
                log.count("paused-by-callback-then-evaluated-again")
                job, exc = eng.run_job(job=job, **ekw)
    return w, eng, mon, job, exc


def run(doc, log):
    if doc["c09"].get("release_clamp"):
        w, eng, mon, job, exc, doc = simulate_release(doc, log)
    else:
        w, eng, mon, job, exc = simulate(doc, log)
    if exc is not None:
        if isinstance(exc, ValueError):
            raise Discard("newton-did-not-converge")
        raise Violation(PROP, "affine-field", f"undocumented exception {type(exc).__name__}: {exc}", site="job.exc")
    case = doc["bc"]["case"]
    dim = w.mesh.dim
    tol = doc.get("newton", {}).get("tol", 1.5e-8)
    slack = max(1.0, tol / 1.5e-8)
    fk = "solver_inexact" if any(f["kind"] == "solver_inexact" for f in eng.fired) else None
    if doc["mesh"].get("perturb"):
        log.count("distorted-mesh")
        if not doc["mesh"].get("perturb_before_convert", True) and w.mesh.cell_type == "triangle6":
            log.count("curved-tri6")
    vals0 = doc["steps"][0]["ramp"][0]["values"]
    if any(b < a for a, b in zip(vals0, vals0[1:])):
        log.count("load-unload")
    if case != "patch":
        b = doc["mesh"]["b"]
        la = load_axis(doc)
        A0 = float(np.prod([b[k] for k in range(dim) if k != la]))
        xs, ys = job.x, job.y
        if len(xs) != len(mon.records) or len(ys) != len(mon.records):
            raise Violation(PROP, "curve-x", f"job.x / job.y have {len(xs)} / {len(ys)} entries for {len(mon.records)} converged substeps", site="CharacteristicCurve")
        for n, rec in enumerate(mon.records):
            lvl = rec["level"][0]
            xv = np.asarray(xs[n])
            if abs(xv[la] - lvl) > 1e-12 * (1 + abs(lvl)):
                raise Violation(PROP, "curve-x", f"job.x[{n}][{la}] = {xv[la]!r}, the {n}-th ramp value is {lvl!r}", site="CharacteristicCurve.x", fault=fk)
            log.count("curve-x-checked")
            F = rec["P"][0] * A0
            yv = np.asarray(ys[n])
            mu_eff = doc["material"]["p"].get("mu", doc["material"]["p"].get("C10", 0.5) * 2)
            mu_eff = float(np.sum(mu_eff)) if isinstance(mu_eff, list) else float(mu_eff)
            sc = max(abs(F), 0.05 * mu_eff * A0)
            if abs(yv[la] - F) > (1e-5 * slack) * sc + 1e-9:
                raise Violation(PROP, "curve-y", f"job.y[{n}][{la}] = {yv[la]:.8e}, analytic P11*A0 = {F:.8e} (substep {n}, {w.mesh.cell_type})", site=f"CharacteristicCurve.y[{w.mesh.cell_type}]", fault=fk)
            log.count("curve-y-checked")
        # history-immutable: what was recorded at substep i is what the job holds at the end
        digs = [(adigest(np.asarray(a)), adigest(np.asarray(b))) for a, b in zip(xs, ys)]
        for n, rec in enumerate(mon.records):
            if not np.array_equal(np.asarray(xs[n]), rec["u"][w.ramp_bc["move"].points[0]]):
                raise Violation(PROP, "history-immutable", f"job.x[{n}] changed after it was recorded", site="CharacteristicCurve.x")
        log.count("history-immutable-checked")
    # twin with another subdivision of the same load path ------------------------------------------
    if doc["c09"].get("twin") and mon.records:
        r = Streams(doc["c09"]["twin_seed"])["gen"]
        d2 = copy.deepcopy(doc)
        d2["faults"] = []
        for rp in d2["steps"][0]["ramp"]:
            vals = rp["values"]
            out = []
            last = 0.0
            for v in vals:
                if r.random() < 0.6:
                    out.append(sig12(last + (v - last) * r.uniform(0.3, 0.7)))
                out.append(v)
                last = v
            rp["values"] = out
            break
        # apply the same insertion pattern to every ramp entry
        first = d2["steps"][0]["ramp"][0]["values"]
        orig = doc["steps"][0]["ramp"][0]["values"]
        if len(d2["steps"][0]["ramp"]) > 1:
            # rebuild the other ramps proportionally (biaxial)
            t = []
            k = 0
            for v in first:
                t.append(v)
            top = orig[-1] if orig[-1] != 0 else 1.0
            for rp, ro in zip(d2["steps"][0]["ramp"][1:], doc["steps"][0]["ramp"][1:]):
                ratio = (ro["values"][-1] / top) if top else 0.0
                rp["values"] = [sig12(v * ratio) for v in first]
        log2 = EventLog()
        w2, eng2, mon2, job2, exc2 = simulate(d2, log2, monitors=True)
        if exc2 is not None:
            if isinstance(exc2, ValueError):
                raise Discard("twin-did-not-converge")
            raise exc2
        a = mon.records[-1]["u"]
        bb = mon2.records[-1]["u"]
        if mon.records[-1]["level"][0] == mon2.records[-1]["level"][0] and doc["bc"]["case"] != "biaxial" or True:
            scale = max(float(np.abs(a).max()), 0.05 * float(np.max(doc["mesh"]["b"])))
            dd = float(np.abs(a - bb).max())
            if dd > (4e-6 * slack) * scale + 1e-10:
                raise Violation(PROP, "subdivision-independence", f"final displacement depends on the ramp subdivision (diff {dd:.3e}, scale {scale:.3e})", site="history.subdivision", fault=fk)
        log.count("twin-compared")
    # material-level curves (sampled only) ---------------------------------------------------------
    if doc["c09"].get("view") and doc["material"]["name"] not in ("NI", "AD:saint_venant_kirchhoff"):
        um = world.build_umat(doc["material"])
        vr = Streams(doc["c09"]["twin_seed"])["view"]
        lo = vr.choice([0.8, 0.6, 0.5, 0.35])
        hi = vr.choice([1.5, 2.0, 3.0])
        lam = np.unique(np.round(np.concatenate([np.linspace(lo, 1.0, vr.choice([2, 4, 8])), np.linspace(1.0, hi, vr.choice([3, 5, 9]))]), 6))
        cases = (("uniaxial", "ux", lambda l: ("uniaxial", (l,))), ("planar", "ps", lambda l: ("biaxial", (l, 1.0))), ("biaxial", "bx", lambda l: ("biaxial", (l, l))))
        if pick(doc["seed"], "coarse-preview", 2) == 0:
            # earlier in the process: a quick, coarse preview of ANOTHER material with loose options for
            # the lateral-stretch solver - the options of one call belong to that call
            pv = fem.NeoHooke(mu=1.0, bulk=3.0).view()
            lam_ = np.linspace(0.8, 1.6, 4)
            try:
                for meth in (pv.uniaxial, pv.planar, pv.biaxial):
                    meth(lam_, tol=1e-2)
            except (ValueError, TypeError):
                pass
            log.count("coarse-preview-of-another-material")
        for name, key, model in cases:
            try:
                ref = []
                for l in lam:
                    c, arg = model(float(l))
                    ref.append(refmodel.homogeneous(doc["material"], c, arg)[1][0])
            except Discard:
                log.count("material-curve-skipped:no-analytic-solution")
                continue
            kw = {"ux": None, "ps": None, "bx": None}
            kw[key] = lam
            import warnings

            with warnings.catch_warnings(record=True) as caught:
                warnings.simplefilter("always")
                try:
                    got = um.view(**kw).evaluate()[0][1]
                except ValueError:
                    log.count("material-curve-skipped:view-raised")
                    continue
            # felupe's documented flag for a non-physical root of the lateral-stretch search (NaN at
            # those points, with this warning): no answer there, not a wrong one
            flagged = any("det(F) <= 0" in str(w_.message) for w_ in caught)
            got = np.asarray(got, dtype=float)
            ref = np.asarray(ref)
            fin = np.isfinite(got)
            if not fin.all():
                log.count("material-curve-nan-points", int((~fin).sum()))
                if flagged:
                    log.count("material-curve-points-flagged-non-physical-root", int((~fin).sum()))
                elif np.all(np.isfinite(ref)) and (~fin).sum() > 0.25 * len(got):
                    raise Violation(PROP, "material-curve", f"umat.view() {name} curve is NaN at {int((~fin).sum())} of {len(got)} stretches in [{lo}, {hi}] where the analytic solution exists", site=f"view.{name}.nan")
            e = float(np.abs(got[fin] - ref[fin]).max()) if fin.any() else 0.0
            # felupe solves the lateral stretch with scipy.optimize.root at its default tolerance;
            # at strong compression the stress is very sensitive to it
            if e > 1e-4 * (1 + float(np.abs(ref).max())):
                k_ = int(np.abs(np.where(fin, got - ref, 0)).argmax())
                raise Violation(PROP, "material-curve", f"umat.view() {name} curve differs from the analytic stress by {e:.3e} (stretch {lam[k_]:.4f}: {got[k_]:.6e} vs {ref[k_]:.6e}; {len(lam)} stretches in [{lo}, {hi}])", site=f"view.{name}")
            log.count("material-curve-" + name)
        log.count("material-curve-checked")
        # a material with state variables: the three load cases evaluated by ONE view start each from
        # the view's initial state - the same curves as three views with one load case each
        umh = fem.OgdenRoxburgh(fem.NeoHooke(mu=1.0), r=3.0, m=1.0, beta=0.0) & fem.Volumetric(bulk=5.0)
        lam_h = np.linspace(1.0, 1.7, 4)
        try:
            all3 = umh.view(ux=lam_h, ps=lam_h, bx=lam_h).evaluate()
            single = [umh.view(ux=lam_h, ps=None, bx=None).evaluate()[0], umh.view(ux=None, ps=lam_h, bx=None).evaluate()[0], umh.view(ux=None, ps=None, bx=lam_h).evaluate()[0]]
        except ValueError:
            all3 = single = []
        for a3, s1 in zip(all3, single):
            if not np.allclose(np.asarray(a3[1], dtype=float), np.asarray(s1[1], dtype=float), rtol=1e-9, atol=1e-12, equal_nan=True):
                raise Violation(PROP, "material-curve", f"{a3[2]} curve of a material with state variables depends on the other load cases evaluated by the same view (max diff {float(np.nanmax(np.abs(np.asarray(a3[1]) - np.asarray(s1[1])))):.3e})", site="view.evaluate.history-material")
        log.count("material-curve-history-view")
    sig = "|".join([w.mesh.cell_type, str(doc["mesh"].get("perturb") is not None), str(doc["mesh"].get("perturb_before_convert", True)), doc["field"]["kind"], doc["material"]["name"], case, str(len(vals0)), "inexact" if eng.fired else "", "twin" if doc["c09"].get("twin") else ""])
    return {
        "signature": sig + "|" + adigest(np.asarray(vals0))[:6],
        "nontrivial": len(mon.records) >= 1 and float(np.abs(mon.records[-1]["u"]).max()) > 0,
        "faults_fired": [f["kind"] for f in eng.fired],
        "sim": {"substeps_converged": len(mon.records), "newton_calls": len(eng.history)},
    }


def shrink(doc):
    out = []

    def cand(fn):
        d = copy.deepcopy(doc)
        if fn(d) is not False:
            out.append(d)

    if doc["faults"]:
        cand(lambda d: d.update(faults=[]))
    if doc["c09"].get("twin"):
        cand(lambda d: d["c09"].update(twin=False))
    if doc["c09"].get("view"):
        cand(lambda d: d["c09"].update(view=False))
    n = len(doc["steps"][0]["ramp"][0]["values"])
    if n > 1:

        def trunc(d):
            for r in d["steps"][0]["ramp"]:
                r["values"] = r["values"][: n - 1]

        cand(trunc)

        def last_only(d):
            for r in d["steps"][0]["ramp"]:
                r["values"] = r["values"][-1:]

        cand(last_only)
    if any(x > 2 for x in doc["mesh"]["n"]):
        cand(lambda d: d["mesh"].update(n=[2] * len(d["mesh"]["n"])))
    if doc["mesh"].get("perturb") and doc["mesh"]["perturb"]["amp"] > 0.05:
        cand(lambda d: d["mesh"]["perturb"].update(amp=0.05))
    if doc.get("newton"):
        cand(lambda d: d.update(newton={}))
    return out
