"""C15 - load histories: ramps apply in order, history variables follow converged steps.

Simulated: multi-step jobs with ramped boundaries and ramped items, faults F1-F6 at seeded
(step, substep, iteration), continuation with x0, restart from durable state, twin jobs
with refined ramps. Oracles are evaluated against a small Newton-protocol model (which
substep runs with which ramp values from which start state, and when state variables may
change) and against reference history models (running maximum, yield condition).
"""
import copy
import math

import numpy as np

import felupe as fem
import felupe.tools._newton as _newton_mod

from .. import gen, jobsim, world
from ..kernel import Discard, EventLog, InjectedFault, Violation, adigest, close_exact_twin

PROP = "C15"

EVIDENCE = {
    "probes_expected": ["restart-performed", "refined-twin-compared", "pseudo-elastic-unloading-point", "plastic-point", "failure-then-stop", "commit-seen", "repeat-level-compared", "retry-after-failure-compared", "step-reused-after-boundary-change", "job-evaluated-twice"],
    "clauses_sampled_only": [],
}


def generate(seed, tier, k):
    r = gen.Streams(seed)["top"]
    profile = r.choice(["general", "history", "history"])
    doc = gen.gen_job(seed, profile=profile)
    mode = k % 3
    if mode == 2:
        gen.add_faults(doc, seed, p_fault=1.0)
    nsub = sum(len(s["ramp"][0]["values"]) for s in doc["steps"])
    doc["c15"] = {
        "x0": r.choice([False] * 5 + [True, "separate"]),
        "restart_after": r.randrange(nsub) if (mode == 0 and r.random() < 0.5 and nsub > 1) else None,
        "restart_drop_state": r.random() < 0.5,
        "refine": mode == 1 and r.random() < 0.6,
        "reuse_step": mode == 0 and r.random() < 0.4,
        "evaluate_twice": mode == 0 and r.random() < 0.4,
    }
    if doc.get("manual_bc_ramp"):
        if mode == 2:
            doc.pop("manual_bc_ramp")  # (the retry after a failure re-runs steps without the caller's loop)
        else:
            # the sub-histories that re-run steps on their own know nothing of the caller's loop
            doc["c15"].update(restart_after=None, refine=False, reuse_step=False, evaluate_twice=False)
    return gen.maybe_units(doc)


# ----------------------------------------------------------------------------------------
# reference models
# ----------------------------------------------------------------------------------------
class RampModel:
    """Which value every ramp target carries in substep (j, i): the i-th entry of step j's
    ramp; targets not ramped in step j keep the last value they were given."""

    def __init__(self, world_):
        self.w = world_
        self.current = {}

    def at(self, j, i):
        cur = {}
        doc = self.w.doc
        if getattr(self.w, "pass_index", 0) > 0:
            # the job is evaluated again: every target still carries the last value it was given
            for s_ in doc["steps"]:
                for r in s_.get("ramp", []):
                    cur[r["target"]] = self.w.ramp_value(r, len(r["values"]) - 1)
        for jj in range(j):
            for r in doc["steps"][jj].get("ramp", []):
                cur[r["target"]] = self.w.ramp_value(r, len(r["values"]) - 1)
        for r in doc["steps"][j].get("ramp", []):
            cur[r["target"]] = self.w.ramp_value(r, i)
        return cur


def model_ext0(w, j, i, dof0):
    """Prescribed values the step must hand to Newton in substep (j, i)."""
    cur = RampModel(w).at(j, i)
    fields = w.field.fields
    sizes = [f.values.size for f in fields]
    starts = np.concatenate([[0], np.cumsum(sizes)[:-1]])
    full = {}
    name_of = {id(b): n for n, b in w.ramp_bc.items()}
    for bname, b in w.steps[j].boundaries.items():
        k = ([q for q, f in enumerate(fields) if f is b.field] or [q for q, f in enumerate(w.top.fields) if f is b.field])[0]
        tgt = "bc:" + name_of.get(id(b), "\0")
        v = cur.get(tgt, None)
        if v is None:
            v = b.value if id(b) not in name_of else 0.0
            # a ramped boundary that has not been ramped yet carries its construction value
            if id(b) in name_of:
                v = w.initial_bc_values.get(name_of[id(b)], 0.0)
        if isinstance(v, np.ndarray):
            if v.size != b.dof.size:
                v = np.broadcast_to(v.reshape(1, -1) if v.ndim == 1 else v, (b.points.size, v.shape[-1]))
            v = np.asarray(v, dtype=float).ravel()
        else:
            v = np.full(b.dof.size, float(v))
        for d, val in zip(b.dof.ravel(), v):
            full[int(starts[k]) + int(d)] = float(val)
    return full


def apply_model_ramp(fk, j, i):
    """Put a fork's ramped boundaries and items at the values of the ramp model."""
    cur = RampModel(fk).at(j, i)
    for tgt, v in cur.items():
        if tgt.startswith("bc:"):
            fk.ramp_bc[tgt[3:]].update(v)
        else:
            fk.items[int(tgt[5:])].update(v)


def stiff_units(doc):
    return float(doc.get("units", {}).get("S", 1.0)) > 1.0


def conv_diff(a, b, tol, floor=1e-3, skip_duals=False):
    """Two converged states of the same problem (lists of field value arrays): (exceeds,
    worst diff, its limit). Converged-state tolerance (DESIGN section 6) per field; dual
    fields (pressure, volume ratio) are known only to Newton tolerance times the bulk
    conditioning, five times the displacement rule."""
    worst = (False, 0.0, 0.0)
    for k, (x, y) in enumerate(zip(a, b)):
        if k > 0 and skip_duals:
            # Newton's single residual norm mixes the units of the three equations: relative to
            # reaction forces of 1e6 the volume-ratio equation is "converged" with an error of 1e-2,
            # so in stiff unit systems the dual fields are determined much less sharply
            continue
        x, y = np.asarray(x), np.asarray(y)
        scale = max(float(np.abs(y).max()), floor)
        lim = (2e-5 if k == 0 else 1e-4) * scale * max(1.0, tol / 1.5e-8)
        d = float(np.abs(x - y).max()) if x.shape == y.shape else float("inf")
        if d > lim and (not worst[0] or d / lim > worst[1] / worst[2]):
            worst = (True, d, lim)
        elif not worst[0] and d > worst[1]:
            worst = (False, d, lim)
    return worst


def crosses_instability(doc, engines):
    """True if the tangent on the free unknowns is not positive definite at some converged state
    of one of the histories: beyond a bifurcation / limit point several equilibria exist and
    Newton may legitimately settle on different ones (outside the property's stable range)."""
    from felupe.dof import partition

    for eng in engines:
        for cb in eng.callbacks:
            fk = world.World(copy.deepcopy(eng.w.doc))
            j = cb["step"]
            try:
                apply_model_ramp(fk, j, cb["substep"])
                fk.set_values(cb["x"])
                items = fk.steps[j].items
                world.ref_fun_items(fk, items)
                K = world.ref_jac_items(fk, items)
            except Exception:
                return True
            # an equilibrium with inverted cells (det F <= 0 at a quadrature point) is an unphysical
            # branch that models with energies defined for negative volume ratios admit
            Fq = fk.field.extract()[0]
            if np.linalg.det(np.moveaxis(Fq, (0, 1), (-2, -1))).min() <= 0:
                return True
            dof0, dof1 = partition(fk.field, fk.steps[j].boundaries)
            nu = fk.field.fields[0].values.size
            d1 = dof1[dof1 < nu]
            K11 = K[np.ix_(d1, d1)]
            if len(fk.field.fields) > 1:
                # condense the dual unknowns (saddle point): Schur complement on the displacements
                d2 = dof1[dof1 >= nu]
                if d2.size:
                    try:
                        K11 = K11 - K[np.ix_(d1, d2)] @ np.linalg.solve(K[np.ix_(d2, d2)], K[np.ix_(d2, d1)])
                    except np.linalg.LinAlgError:
                        return True
            if K11.size == 0:
                continue
            ev = np.linalg.eigvalsh((K11 + K11.T) / 2)
            if not np.all(np.isfinite(ev)) or ev[0] <= 1e-6 * abs(ev[-1]):
                return True
    return False


VALUE_KEY = {"PointLoad": "values", "SolidBodyForce": "values", "SolidBodyGravity": "gravity", "SolidBodyPressure": "pressure", "SolidBodyCauchyStress": "stress"}


def cold_fork_at(w_live, j, i):
    """A world rebuilt from the document in which every ramped load item is *constructed* at the
    value of the ramp model (not updated to it), ramped boundaries are updated: what the item's
    update(value) must be equivalent to."""
    cur = RampModel(w_live).at(j, i)
    d = copy.deepcopy(w_live.doc)
    for tgt, v in cur.items():
        if tgt.startswith("item:"):
            k = int(tgt[5:])
            key = VALUE_KEY.get(d["items"][k]["type"])
            if key is not None:
                d["items"][k][key] = np.asarray(v, dtype=float).tolist() if not np.isscalar(v) else float(v)
    fk = world.World(d)
    for tgt, v in cur.items():
        if tgt.startswith("bc:"):
            fk.ramp_bc[tgt[3:]].update(v)
        elif VALUE_KEY.get(d["items"][int(tgt[5:])]["type"]) is None:
            fk.items[int(tgt[5:])].update(v)
    return fk


def neo_hooke_energy(F, mu):
    """Independent isochoric Neo-Hooke energy per quadrature point."""
    C = np.einsum("ki...,kj...->ij...", F, F)
    J = np.linalg.det(F.transpose(2, 3, 0, 1)).transpose(0, 1)
    trC = C[0, 0] + C[1, 1] + C[2, 2]
    return mu / 2 * (J ** (-2 / 3) * trC - 3)


def defgrad(w, values):
    """Deformation gradient at the quadrature points from nodal values (3x3 also in 2D)."""
    f0 = w.field.fields[0]
    region = w.region
    u = np.asarray(values[0])
    H = np.einsum("cai,aJqc->iJqc", u[region.mesh.cells], region.dhdX)
    dim = H.shape[0]
    kind = w.doc.get("field", {}).get("kind", "Field")
    nq, nc = H.shape[2:]
    F = np.zeros((3, 3, nq, nc))
    F[:dim, :dim] = H
    for a in range(3):
        F[a, a] += 1.0
    if kind == "Axi" or (kind == "Mixed3" and w.doc["field"].get("axisymmetric")):
        R = f0.radius
        ur = np.einsum("ca,aqc->qc", u[region.mesh.cells][..., 1], region.h)
        F[2, 2] = 1 + ur / R
    return F


class C15Monitor(jobsim.Monitor):
    def __init__(self, log, doc):
        self.log = log
        self.doc = doc
        self.prev = None  # previous Newton call record
        self.failed = False
        self.levels = []

    def V(self, monitor, detail, site=None, fault=None):
        raise Violation(PROP, monitor, detail, site=site, fault=fault)

    def _fk(self, eng, c):
        return ",".join(sorted({f["kind"] for f in eng.fired if f.get("step") == c["step"] and f.get("substep") == c["substep"]})) or None

    # -- substep start: ramp order, start state, commit protocol between calls -----------------
    def on_substep_start(self, eng, c):
        w = eng.w
        j, i = c["step"], c["substep"]
        if self.failed:
            self.V("stop-at-first-failure", f"Newton was started for substep ({j},{i}) after an earlier substep had failed", site="Step.generate")
        c["durable_start"] = w.durable()
        # (1) ramp order for boundaries: ext0 handed to Newton == model
        want = model_ext0(w, j, i, c["dof0"])
        pos = {int(d): n for n, d in enumerate(c["dof0"])}
        for d, val in want.items():
            if d not in pos:
                self.V("ramp-order", f"unknown {d} selected by a boundary is not prescribed", site="Step.generate.partition")
            got = c["ext0"][pos[d]]
            if abs(got - val) > 1e-14 * (1 + abs(val)):
                self.V("ramp-order", f"substep ({j},{i}): prescribed value handed to Newton is {got!r}, the ramp says {val!r}", site="Step.generate.ext0")
        self.log.count("ramp-order-checked")
        # (2) start state == previous converged state (bitwise), also across steps
        p = self.prev
        if p is not None and p["outcome"] == "returned":
            prev_x = [f.values for f in p["res"].x.fields]
            for a, b in zip(prev_x, c["x_start"]):
                if a.shape != b.shape or not np.array_equal(a, b):
                    self.V("start-state", f"substep ({j},{i}) does not start from the previous converged state (max diff {np.abs(a-b).max():.3e})", site="Step.generate.start")
            if p["sv_end"] != c["sv_start"]:
                self.V("commit-protocol", "state variables changed between two Newton calls", site="between-substeps")
            self.log.count("start-state-checked")

    # -- first iteration: the residual Newton works on is that of the model ramp values ---------
    def on_solve(self, eng, c, it):
        if c["iter"] != 0:
            return
        j, i = c["step"], c["substep"]
        fk = cold_fork_at(eng.w, j, i)
        d = dict(c["durable_start"])
        d["values"] = it["x"]
        fk.load(d)
        items = [fk.items[k] for k in self.doc["steps"][j].get("items", range(len(fk.items)))]
        r = world.ref_fun_items(fk, items)
        f_live = -np.asarray(it["b"])
        if np.all(np.isfinite(f_live)):
            scale = max(float(np.abs(r).max()), float(abs(it["K"]).max()) * (float(np.abs(np.concatenate([v.ravel() for v in it["x"]])).max()) + 1e-4))
            ok, rel = close_exact_twin(r, f_live, atol=1e-11 * scale + 1e-300)
            if not ok:
                self.V("ramp-order", f"substep ({j},{i}): the residual Newton starts from is not the one of the {i}-th ramp values (rel {rel:.2e})", site="Step.generate.items")
            self.log.count("ramp-items-checked")

    # -- every check: commit protocol -----------------------------------------------------------
    def on_check(self, eng, c, it):
        if it["sv_before_check"] != c["sv_start"]:
            self.V("commit-protocol", f"state variables changed inside substep ({c['step']},{c['substep']}) before convergence", site="newton-iteration", fault=self._fk(eng, c))
        if not it["success"]:
            if it["sv_after_check"] != c["sv_start"]:
                self.V("commit-protocol", "state variables committed by a non-converged iteration", site="check", fault=self._fk(eng, c))
        else:
            for k, (after, trial) in enumerate(zip(it["sv_after_check"], it["trial"])):
                if after is None or trial is None:
                    continue
                if after[1] != trial:
                    self.V("commit-protocol", f"item {k}: committed state variables are not the trial values of the converged iterate", site="check.commit", fault=self._fk(eng, c))
            self.log.count("commit-seen")

    def on_substep_end(self, eng, c):
        j, i = c["step"], c["substep"]
        if c["outcome"] == "raised":
            self.failed = True
            self.log.count("substep-failed")
            if c["sv_end"] != c["sv_start"]:
                self.V("commit-protocol", f"state variables changed by a failing substep ({type(c['exc']).__name__})", site="newtonrhapson.fail", fault=self._fk(eng, c))
        else:
            self.history_models(eng, c)
        self.prev = c

    # -- reference history models -----------------------------------------------------------------
    def history_models(self, eng, c):
        w = eng.w
        res = c["res"]
        vals = [f.values for f in res.x.fields]
        for k, item in enumerate(w.items):
            spec = self.doc["items"][k]
            if spec["type"] != "SolidBody":
                continue
            name = spec["umat"]["name"]
            sv_new = item.results.statevars
            sv_old = c["durable_start"]["statevars"][k]
            if name in ("OgdenRoxburgh", "OgdenRoxburghAD"):
                F = defgrad(w, vals)
                W = neo_hooke_energy(F, spec["umat"]["p"]["mu"])
                if not (np.all(np.isfinite(W)) and np.all(np.isfinite(sv_new))):
                    self.log.count("pseudo-elastic-skipped-nonfinite")
                    continue
                want = np.maximum(sv_old[0], W)
                ok, rel = close_exact_twin(sv_new[0], want, rtol=1e-9, atol=1e-12)
                if not ok:
                    self.V("pseudo-elastic", f"stored maximum energy is not the running maximum over converged substeps (rel {rel:.2e})", site="statevars.Wmax")
                unloading = W < sv_old[0] * (1 - 1e-9) - 1e-12
                self.log.count("pseudo-elastic-unloading-point", int(unloading.sum()))
                self.log.count("pseudo-elastic-checked")
                # primary loading: stress equals the base material's
                primary = W >= sv_old[0]
                if primary.any() and item.results.stress is not None:
                    base = fem.NeoHooke(mu=spec["umat"]["p"]["mu"]) & fem.Volumetric(bulk=spec["umat"]["p"]["bulk"])
                    Pb = base.gradient([F, np.zeros((0, *F.shape[2:]))])[0]
                    Pl = item.results.stress[0]
                    # the live stress array belongs to the last residual evaluation (= converged iterate)
                    d = np.abs(Pl - Pb)[..., primary]
                    if d.size and d.max() > 1e-9 * (1 + np.abs(Pb).max()):
                        self.V("pseudo-elastic", f"stress on the primary loading path differs from the base material by {d.max():.3e}", site="stress.primary")
                    self.log.count("primary-path-checked")
            elif name == "Plastic":
                p = spec["umat"]["p"]
                alpha_old, alpha = sv_old[0], sv_new[0]
                if np.any(alpha < alpha_old - 1e-14):
                    self.V("plastic", f"equivalent plastic strain decreased by {(alpha_old-alpha).max():.3e}", site="statevars.alpha")
                sig = sv_new[19:28].reshape(3, 3, *sv_new.shape[1:])
                tr = sig[0, 0] + sig[1, 1] + sig[2, 2]
                s = sig.copy()
                for a in range(3):
                    s[a, a] -= tr / 3
                ns = np.sqrt(np.einsum("ij...,ij...->...", s, s))
                f = ns - math.sqrt(2 / 3) * (p["sy"] + p["K"] * alpha)
                if f.max() > 1e-9 * p["sy"] + 1e-12 * ns.max():
                    self.V("plastic", f"yield condition violated after a committed update (f = {f.max():.3e})", site="statevars.yield")
                self.log.count("plastic-point", int((alpha > 0).sum()))
                self.log.count("plastic-checked")
        # reloading retraces unloading: equal prescribed values and equal committed state at the
        # start => equal converged state
        key = (adigest(c["ext0"]), tuple(x[1] if x else None for x in c["sv_start"]), c["step"] if len(self.doc["steps"]) > 1 else 0)
        ramped_items = any(r["target"].startswith("item:") for s in self.doc["steps"] for r in s.get("ramp", []))
        # a substep in which an injected solver fault threw Newton off its path may legitimately end
        # on another equilibrium: compared only between undisturbed substeps
        disturbed = any(f.get("step") == c["step"] and f.get("substep") == c["substep"] for f in eng.fired)
        if not ramped_items and not disturbed:
            for key2, vals2, tol2 in self.levels:
                if key2 == key:
                    bad, d, _lim = conv_diff(vals, vals2, c["tol"], skip_duals=stiff_units(self.doc))
                    if bad:
                        if crosses_instability(self.doc, [eng]):
                            raise Discard("history-crosses-instability")
                        self.V("repeat-level", f"two substeps with equal prescribed values and equal committed state converged to different fields (diff {d:.3e})", site="history.retrace")
                    self.log.count("repeat-level-compared")
                    break
            self.levels.append((key, [v.copy() for v in vals], c["tol"]))


# ----------------------------------------------------------------------------------------
def simulate(doc, log, monitors=True, until=None):
    doc = copy.deepcopy(doc)
    holder = {}

    def wrap(k, um, spec):
        return jobsim.wrap_umat(um, lambda *a: holder["eng"].umat_hook(k)(*a))

    w = world.World(doc, umat_wrap=wrap)
    w.initial_bc_values = {n: (b.value.copy() if isinstance(b.value, np.ndarray) else b.value) for n, b in w.ramp_bc.items()}
    mon = C15Monitor(log, doc)
    eng = jobsim.Engine(w, doc, log, monitors=[mon] if monitors else [])
    holder["eng"] = eng
    kw = {}
    if doc.get("c15", {}).get("x0") == "separate":
        kw["x0"] = w.toplevel_field()
        log.count("x0-toplevel-container")
    elif doc.get("c15", {}).get("x0"):
        kw["x0"] = w.field
    x0_start = [f.values.copy() for f in kw["x0"].fields] if "x0" in kw else None
    with eng:
        job, exc = eng.run_job(**kw)
        if doc.get("c15", {}).get("twice") and exc is None:
            # the very same job (same Step objects, same ramp tables) evaluated a second time: every
            # substep of the second pass applies its own ramp value again
            w.pass_index = 1
            mon.levels = []
            n1, c1 = len(eng.history), len(eng.callbacks)
            job, exc = eng.run_job(job=job, **kw)
            n2, c2 = len(eng.history) - n1, len(eng.callbacks) - c1
            if exc is None and (n2 != n1 or c2 != c1):
                raise Violation(PROP, "one-result-per-converged-substep", f"the same job evaluated a second time performed {n2} substeps and yielded {c2} results, the first evaluation {n1} and {c1}", site="Job.evaluate.second-pass")
    if "x0" in kw and kw["x0"] is not w.field and monitors:
        # a separate x0 container is only touched by the job (linked after each converged substep;
        # the items' own container follows every Newton iterate): it holds the last converged
        # state, also when a later substep failed
        last = [c for c in eng.history if c["outcome"] == "returned"]
        if last:
            cands = [[f.values for f in last[-1]["res"].x.fields]]
            if len(last) > 1:
                # a substep whose callback raised has converged but was not handed over yet
                cands.append([f.values for f in last[-2]["res"].x.fields])
            else:
                cands.append(x0_start)
            got = [f.values for f in kw["x0"].fields]
            if not any(all(np.array_equal(a, b) for a, b in zip(got, c)) for c in cands[: 2 if exc is not None else 1]):
                dmax = max(float(np.abs(a - b).max()) for a, b in zip(got, cands[0]))
                raise Violation(PROP, "start-state", f"after the job the caller's x0 does not hold the last converged state (max diff {dmax:.3e})", site="Job.evaluate.x0")
            log.count("x0-after-job-checked")
    return eng, exc, mon


def total_substeps(doc):
    return sum(len(s["ramp"][0]["values"]) for s in doc["steps"])


def protocol_checks(doc, eng, exc):
    """Whole-history oracles: one result per converged substep, stop at the first failure."""
    hist = eng.history
    conv = [(c["step"], c["substep"]) for c in hist if c["outcome"] == "returned"]
    cbs = [(c["step"], c["substep"]) for c in eng.callbacks]
    expected = [(j, i) for j, s in enumerate(doc["steps"]) for i in range(len(s["ramp"][0]["values"]))]
    # the callback sees exactly the converged prefix, in order (a callback fault ends the job)
    if cbs != conv[: len(cbs)] or len(cbs) < len(conv) - 1:
        raise Violation(PROP, "one-result-per-converged-substep", f"callback sequence {cbs} vs converged substeps {conv}", site="Job.evaluate")
    if [(c["step"], c["substep"]) for c in hist] != expected[: len(hist)]:
        raise Violation(PROP, "one-result-per-converged-substep", f"Newton was called for {[(c['step'], c['substep']) for c in hist]}, expected a prefix of {expected}", site="Step.generate.order")
    failed = [n for n, c in enumerate(hist) if c["outcome"] == "raised"]
    if failed:
        if failed[0] != len(hist) - 1:
            raise Violation(PROP, "stop-at-first-failure", "substeps were attempted after a failing one", site="Step.generate")
        if exc is None:
            raise Violation(PROP, "stop-at-first-failure", "a substep failed but the job returned normally", site="Job.evaluate")
    else:
        cb_fault = any(f["kind"].startswith("callback") for f in eng.fired)
        if exc is None and len(hist) != len(expected):
            raise Violation(PROP, "one-result-per-converged-substep", f"job ended normally after {len(hist)} of {len(expected)} substeps", site="Job.evaluate")
        if exc is not None and not cb_fault:
            raise Violation(PROP, "stop-at-first-failure", f"job raised {type(exc).__name__} although no substep failed", site="Job.evaluate")


def run(doc, log):
    eng, exc, mon = simulate(doc, log)
    if exc is not None and not isinstance(exc, (ValueError, InjectedFault, KeyboardInterrupt)):
        raise Violation(PROP, "stop-at-first-failure", f"undocumented exception {type(exc).__name__}: {exc}", site="job.exc")
    protocol_checks(doc, eng, exc)
    if any(c["outcome"] == "raised" for c in eng.history):
        log.count("failure-then-stop")
    opts = doc.get("c15", {})
    nconv = len(eng.callbacks)
    fault_free = not doc.get("faults")
    # restart equivalence -------------------------------------------------------------------
    ra = opts.get("restart_after")
    if fault_free and exc is None and ra is not None and ra < nconv - 1:
        restart_check(doc, eng, ra, opts.get("restart_drop_state", False), log)
    # path independence for elastic materials ---------------------------------------------------
    if fault_free and exc is None and opts.get("refine") and is_elastic(doc):
        refine_check(doc, eng, log)
    # the same Step object evaluated again after its boundary dictionary was changed -----------------
    if fault_free and exc is None and opts.get("reuse_step") and nconv >= 1 and doc["field"]["kind"] != "Mixed3":
        reuse_step_check(doc, eng, log)
    # the same job evaluated twice ---------------------------------------------------------------------
    if fault_free and exc is None and opts.get("evaluate_twice"):
        d2 = copy.deepcopy(doc)
        d2["c15"] = {"x0": opts.get("x0"), "twice": True}
        eng2, exc2, _ = simulate(d2, EventLog(), monitors=True)
        if exc2 is not None and not isinstance(exc2, ValueError):
            raise exc2
        log.count("job-evaluated-twice")
    # failure, then continuation on the SAME objects from the last converged state --------------
    if exc is not None and eng.fired and opts.get("retry", True):
        retry_check(doc, eng, exc, log)
    fired = [f["kind"] for f in eng.fired]
    disp = float(max(np.abs(v).max() for v in eng.callbacks[-1]["x"])) if eng.callbacks else 0.0
    sig = "|".join(
        [
            doc["mesh"]["gen"] + str(doc["mesh"].get("convert")),
            doc["field"]["kind"],
            "+".join(i["type"] + (":" + i["umat"]["name"] if "umat" in i else "") for i in doc["items"]),
            doc["bc"]["case"],
            "x".join(str(len(s["ramp"][0]["values"])) for s in doc["steps"]),
            ",".join(sorted(set(fired))),
            "exc:" + (type(exc).__name__ if exc is not None else "-"),
            "restart" if ra is not None else "",
            "refine" if opts.get("refine") else "",
        ]
    )
    return {
        "signature": sig,
        "nontrivial": bool((nconv >= 1 and disp > 0) or fired),
        "faults_fired": fired,
        "sim": {"substeps_converged": nconv, "newton_calls": len(eng.history), "iterations": sum(len(c["its"]) for c in eng.history), "load_time_units": nconv},
    }


def is_elastic(doc):
    for it in doc["items"]:
        if it["type"] in ("MultiPointContact",):
            return False
        if "umat" in it and it["umat"]["name"] in world.HISTORY_MATERIALS:
            return False
    return True


def flat_index(doc, n):
    """n-th substep overall -> (step, substep)."""
    for j, s in enumerate(doc["steps"]):
        k = len(s["ramp"][0]["values"])
        if n < k:
            return j, n
        n -= k
    raise IndexError


def restart_check(doc, eng, ra, drop_state, log):
    """Run the rest of the history in a world rebuilt from durable state only."""
    j, i = flat_index(doc, ra)
    base = eng.callbacks
    d = base[ra]["durable"] if "durable" in base[ra] else None
    # durable state after substep `ra` = start state of the next Newton call
    nxt = eng.history[ra + 1]
    d = dict(nxt["durable_start"])
    if drop_state:
        d["state"] = [None for _ in d["state"]]
    doc2 = copy.deepcopy(doc)
    doc2["faults"] = []
    w2 = world.World(doc2)
    # the new process applies the ramp state of the history so far, then loads durable state
    apply_model_ramp(w2, j, i)
    w2.load(d)
    # remaining history: rest of step j, then later steps
    rest = []
    nj = len(doc["steps"][j]["ramp"][0]["values"])
    if i + 1 < nj:
        s = copy.deepcopy(doc["steps"][j])
        for r in s["ramp"]:
            r["values"] = r["values"][i + 1 :]
        rest.append((j, s))
    for jj in range(j + 1, len(doc["steps"])):
        rest.append((jj, copy.deepcopy(doc["steps"][jj])))
    results = []
    kw = {}
    nk = doc.get("newton", {})
    for key in ("tol", "maxiter"):
        if key in nk:
            kw[key] = nk[key]
    try:
        for jj, s in rest:
            # ramp values of this remaining step are evaluated with the world's own geometry
            w2.doc["steps"] = [s]
            step = w2._build_step(s)
            for res in step.generate(verbose=False, **kw):
                results.append(res)
    except ValueError:
        if drop_state:
            # Newton from a state without the stored (condensed / history) variables is another
            # iteration history; its convergence is not part of the property
            raise Discard("restart-without-state-did-not-converge")
        raise Violation(PROP, "restart-equivalence", "the restarted history failed to converge where the uninterrupted one converged", site="restart")
    tail = base[ra + 1 :]
    if len(results) != len(tail):
        raise Violation(PROP, "restart-equivalence", f"restarted history yields {len(results)} results, uninterrupted {len(tail)}", site="restart")
    for n, (a, b) in enumerate(zip(results, tail)):
        va = [f.values for f in a.x.fields]
        scale = max(float(np.abs(np.concatenate([v.ravel() for v in b["x"]])).max()), 1e-3)
        diff = max(float(np.abs(x - y).max()) for x, y in zip(va, b["x"]))
        tol = doc.get("newton", {}).get("tol", 1.5e-8)
        lim = 1e-11 * scale
        if drop_state:
            bad, diff, lim = conv_diff(va, b["x"], tol, skip_duals=stiff_units(doc))
            if bad and crosses_instability(doc, [eng]):
                raise Discard("history-crosses-instability")
            if not bad:
                diff = 0.0
        if diff > lim:
            raise Violation(PROP, "restart-equivalence", f"substep {ra+1+n}: restarted field differs by {diff:.3e} (limit {lim:.1e})", site="restart.field")
    # state variables at the end
    for k, (it_live, it_re) in enumerate(zip(eng.w.items, w2.items)):
        sa = getattr(getattr(it_live, "results", None), "statevars", None)
        sb = getattr(getattr(it_re, "results", None), "statevars", None)
        if sa is None or sb is None or sa.size == 0:
            continue
        ok, rel = close_exact_twin(sa, sb, rtol=1e-9 if not drop_state else 1e-4, atol=1e-12)
        if not ok:
            raise Violation(PROP, "restart-equivalence", f"item {k}: state variables after restart differ (rel {rel:.2e})", site="restart.statevars")
    log.count("restart-performed")


def reuse_step_check(doc, eng, log):
    """Second phase of a two-phase loading: the boundary dictionary of the last Step is changed
    (one more face is held) and the same Step object is evaluated again over a new ramp. The
    result must be that of a freshly created Step with the same dictionary from the same state."""
    w = eng.w
    j = len(w.steps) - 1
    step = w.steps[j]
    sdoc = doc["steps"][j]
    dim = w.mesh.dim
    ax = dim - 1
    skip = [True] * dim
    skip[ax] = False

    def extra(world_):
        pts = world_.mesh.points[:-1] if world_.doc["mesh"].get("extra_point") else world_.mesh.points
        return fem.Boundary(world_.field[0], skip=tuple(skip), value=0.0, **{["fx", "fy", "fz"][ax]: float(pts[:, ax].max())})

    # new ramp for the second phase: back to half of the last value in two substeps
    s2 = copy.deepcopy(sdoc)
    for r in s2["ramp"]:
        last = r["values"][-1]
        if isinstance(last, list):
            r["values"] = [(0.75 * np.asarray(last, dtype=float)).tolist(), (0.5 * np.asarray(last, dtype=float)).tolist()]
        else:
            r["values"] = [0.75 * last, 0.5 * last]
    kw = {k: v for k, v in doc.get("newton", {}).items() if k in ("tol", "maxiter")}
    # twin: fresh world + fresh Step at the same durable state
    d2 = copy.deepcopy(doc)
    d2["faults"] = []
    w2 = world.World(d2)
    apply_model_ramp(w2, j, len(sdoc["ramp"][0]["values"]) - 1)
    w2.load(w.durable())
    w2.boundaries = dict(w2.boundaries)
    w2.boundaries["held"] = extra(w2)
    fresh = w2._build_step(dict(s2, boundaries=None))
    fresh.boundaries = dict(fresh.boundaries)
    fresh.boundaries["held"] = w2.boundaries["held"]
    # live: same Step object, boundary dictionary changed, ramp replaced
    step.boundaries["held"] = extra(w)
    new = w._build_step(s2)
    step.ramp = new.ramp
    step.nsubsteps = new.nsubsteps
    try:
        res_live = [r.x[0].values.copy() for r in step.generate(verbose=False, **kw)]
        res_twin = [r.x[0].values.copy() for r in fresh.generate(verbose=False, **kw)]
    except ValueError:
        raise Discard("second-phase-did-not-converge")
    for n, (a, b) in enumerate(zip(res_live, res_twin)):
        scale = max(float(np.abs(b).max()), 1e-2)
        d = float(np.abs(a - b).max())
        tol = doc.get("newton", {}).get("tol", 1.5e-8)
        if d > 2e-5 * max(1.0, tol / 1.5e-8) * scale:
            raise Violation(PROP, "reuse-step", f"a Step evaluated again after its boundary dictionary was changed differs from a fresh Step with the same dictionary by {d:.3e} (substep {n}, scale {scale:.2e})", site="Step.generate.reuse")
    log.count("step-reused-after-boundary-change")


def retry_check(doc, eng, exc, log):
    """A substep failed (injected fault). The caller restores the last converged displacements
    and runs the rest of the history with a healthy solver on the very same item objects. The
    result must be the fault-free history: a failed attempt leaves nothing behind."""
    w = eng.w
    ncb = len(eng.callbacks)
    nall = total_substeps(doc)
    if ncb >= nall:
        return
    # fault-free twin from scratch
    d2 = copy.deepcopy(doc)
    d2["faults"] = []
    log2 = EventLog()
    eng2, exc2, _ = simulate(d2, log2, monitors=False)
    if exc2 is not None:
        if isinstance(exc2, ValueError):
            raise Discard("fault-free-twin-did-not-converge")
        raise exc2
    # restore the last converged state on the live objects
    if ncb:
        last = eng.callbacks[-1]["x"]
    else:
        # the initial values of the fields (ones for the volume-ratio field of a mixed container)
        last = [f.values.copy() for f in world.World(copy.deepcopy({**doc, "faults": []})).field.fields]
    w.set_values(last)
    for it_, spec_ in zip(w.items, doc["items"]):
        if spec_["type"] == "SolidBodyNearlyIncompressible":
            # the condensed (p, J) state follows the field by a linearised update from the last field
            # it saw (here: the abandoned iterate); the caller lets the body see the restored field once
            # before it solves on (robustness of that update against large jumps is not part of C15)
            # A non-finite stored state (diverged iterate) is something the body must recover from
            # by itself (fix e9877378): no help from the caller then.
            if np.isfinite(it_.results.state.u).all() and np.isfinite(it_.results.state.J).all():
                it_.assemble.vector(w.field)
    j, i = flat_index(doc, ncb)  # first substep to be (re-)run
    rest = []
    s = copy.deepcopy(doc["steps"][j])
    for r in s["ramp"]:
        r["values"] = r["values"][i:]
    rest.append(s)
    for jj in range(j + 1, len(doc["steps"])):
        rest.append(copy.deepcopy(doc["steps"][jj]))
    kw = {k: v for k, v in doc.get("newton", {}).items() if k in ("tol", "maxiter")}
    results = []
    failed_kind = ",".join(sorted({f["kind"] for f in eng.fired}))
    if w.top is not None:
        for f, v in zip(w.top.fields, last):
            f.values = np.array(v, copy=True)
        kw["x0"] = w.top
    try:
        for s in rest:
            step = w._build_step(s)
            for res in step.generate(verbose=False, **kw):
                results.append(res)
                if w.top is not None:
                    w.top.link(res.x)  # what Job.evaluate does after every converged substep
    except ValueError as e:
        if "Maximum number of iterations" in str(e) and any(it_.get("umat", {}).get("name") in world.HISTORY_MATERIALS for it_ in doc["items"]):
            # Newton cycling at a loading / unloading switch of a history material: which of two histories
            # that differ by rounding gets through is not part of the property (NaN failures stay violations)
            raise Discard("iteration-histories-part-at-a-switch")
        raise Violation(PROP, "retry-after-failure", f"after a failed substep ({failed_kind}) the history cannot be continued on the same objects from the last converged state: {e}", site="+".join(sorted({it["type"] for it in doc["items"]})), fault=failed_kind)
    tail = eng2.callbacks[ncb:]
    tol = doc.get("newton", {}).get("tol", 1.5e-8)
    for n, (a, b) in enumerate(zip(results, tail)):
        va = [f.values for f in a.x.fields]
        scale = max(float(np.abs(np.concatenate([v.ravel() for v in b["x"]])).max()), 1e-2)
        bad, diff, _lim = conv_diff(va, b["x"], tol, floor=1e-2, skip_duals=stiff_units(doc))
        if bad and crosses_instability(doc, [eng2]):
            raise Discard("history-crosses-instability")
        if bad:
            raise Violation(PROP, "retry-after-failure", f"substep {ncb+n} re-run after a failed attempt ({failed_kind}) differs from the fault-free history by {diff:.3e} (scale {scale:.2e})", site="+".join(sorted({it["type"] for it in doc["items"]})), fault=failed_kind)
    for k, (it_live, it_twin) in enumerate(zip(w.items, eng2.w.items)):
        sa = getattr(getattr(it_live, "results", None), "statevars", None)
        sb = getattr(getattr(it_twin, "results", None), "statevars", None)
        if sa is None or sb is None or sa.size == 0:
            continue
        ok, rel = close_exact_twin(sa, sb, rtol=1e-4, atol=1e-9)
        if not ok:
            raise Violation(PROP, "retry-after-failure", f"item {k}: state variables after failure + continuation differ from the fault-free history (rel {rel:.2e})", site="statevars", fault=failed_kind)
    log.count("retry-after-failure-compared")


def refine_check(doc, eng, log):
    """Elastic path independence: every load increment split in two => same final state."""
    doc2 = copy.deepcopy(doc)
    doc2["faults"] = []
    prev_end = {}
    for s in doc2["steps"]:
        for r in s["ramp"]:
            vals = r["values"]
            start = prev_end.get(r["target"], np.zeros_like(np.asarray(vals[0], dtype=float)).tolist() if isinstance(vals[0], list) else 0.0)
            out = []
            last = start
            for v in vals:
                if isinstance(v, list):
                    mid = ((np.asarray(last, dtype=float) + np.asarray(v, dtype=float)) / 2).tolist()
                else:
                    mid = (last + v) / 2
                out += [mid, v]
                last = v
            r["values"] = out
            prev_end[r["target"]] = last
    log2 = EventLog()
    eng2, exc2, _ = simulate(doc2, log2, monitors=False)
    if exc2 is not None:
        if isinstance(exc2, ValueError):
            raise Discard("refined-twin-did-not-converge")
        raise exc2
    a = eng.callbacks[-1]["x"]
    b = eng2.callbacks[-1]["x"]
    scale = max(float(np.abs(np.concatenate([v.ravel() for v in a])).max()), 1e-3)
    tol = doc.get("newton", {}).get("tol", 1.5e-8)
    bad, diff, _lim = conv_diff(a, b, tol, skip_duals=stiff_units(doc))
    if bad and crosses_instability(doc, [eng, eng2]):
        raise Discard("history-crosses-instability")
    if bad:
        raise Violation(PROP, "path-independence", f"final state depends on the subdivision of the load path (diff {diff:.3e}, scale {scale:.2e})", site="history.refine")
    log.count("refined-twin-compared")


from .C07 import shrink as _shrink07  # noqa: E402


def shrink(doc):
    out = _shrink07(doc)
    o = doc.get("c15", {})
    for key in ("x0", "refine", "restart_drop_state"):
        if o.get(key):
            d = copy.deepcopy(doc)
            d["c15"][key] = False
            out.append(d)
    return out
