"""C10 - reduced, condensed and fast-path formulations equal their full counterparts.

Decided by simulation: (1) the nearly-incompressible body carries condensed (p, J) that are
advanced by a *linearised* update at every residual evaluation; the claim is about where that
stateful iteration ends up. Twin worlds - SolidBodyNearlyIncompressible vs
SolidBody(NearlyIncompressible(...)) on FieldsMixed(n=3) with cell-wise constant duals - are
driven through the same ramp and compared at every converged substep (u, p, J), with and
without inexact solves, and after a restart that drops the condensed state.
(2) The uniform-grid region is a fast path selected by a flag: the same history is run with
the knob on and off and every assembled vector / matrix and every converged state is compared.
Sampled only: plane strain vs unit-thickness slab, axisymmetric forces vs the derivative of
the 2 pi R weighted energy - evaluated as twins at the states the histories reach.
"""
import copy

import numpy as np

import felupe as fem
import felupe.tools._newton as _newton_mod

from .. import gen, jobsim, world
from ..kernel import Discard, EventLog, InjectedFault, Streams, Violation, close_exact_twin

PROP = "C10"

EVIDENCE = {
    "probes_expected": ["condensed-vs-explicit-compared", "restart-dropped-state", "recreated-body-compared", "matrix-after-evaluate-compared", "unrelated-dual-field-created-before", "uniform-knob-compared", "uniform-knob-assembly-compared", "planestrain-slab-compared", "axisymmetric-energy-compared", "axisymmetric-stress-reused", "kinematics-buffers-checked", "recovery-after-nonfinite-iterate", "fault:solver_inexact", "distorted-mesh"],
    "clauses_sampled_only": [
        "plane strain vs unit-thickness slab (in-plane forces and stiffness) is a pure function of the state; evaluated at the converged states the histories reach",
        "axisymmetric nodal forces = derivative of the 2 pi R weighted strain energy: pure; evaluated by central differences of the energy at the reached states. Convergence of the axisymmetric model to a revolved 3D model is not attempted",
    ],
}


def generate(seed, tier, k):
    S = Streams(seed)
    r = S["gen"]
    mode = ["condensed", "condensed", "uniform", "planestrain", "axi"][k % 5]
    doc = {"kind": "job", "seed": seed, "profile": "c10"}
    mu = gen.rfloat(r, 0.5, 2.0)
    if mode == "condensed":
        dim = r.choice([2, 3])
        mesh = gen.gen_mesh(r, dim=dim, allow=("linear", "linear", "quadratic"), max_cells=8 if dim == 2 else 4)
        fkind = "Field" if dim == 3 else r.choice(["PlaneStrain", "Axi"])
        if dim == 2 and r.random() < 0.3:
            # unstructured-like mesh: several cells start at the same point
            mesh = {"gen": "Circle", "n": [r.choice([2, 3])], "radius": 1.0, "a": [-1.0, -1.0], "b": [2.0, 2.0]}
            fkind = "PlaneStrain"
        if gen.kpick(seed, "many-cells", 10) == 0:
            # a few hundred cells of unequal size (more than any table of small numbers holds)
            dim = 2
            mesh = {"gen": "Rectangle", "n": [19, 16], "a": [0.0, 0.0], "b": [2.0, 1.5], "perturb": {"seed": seed % (1 << 30), "amp": 0.2}}
            fkind = ("PlaneStrain", "Axi")[gen.kpick(seed, "many-cells-kind", 2)]
        bulk = round(mu * r.choice([5.0, 20.0, 100.0, 1000.0, 5000.0]), 3)
        doc["items"] = [{"type": "SolidBodyNearlyIncompressible", "umat": {"name": "NeoHooke", "p": {"mu": mu}}, "bulk": bulk}]
    elif mode == "uniform":
        dim = r.choice([2, 3])
        mesh = gen.gen_mesh(r, dim=dim, allow=("linear",), max_cells=12, perturb=False)
        fkind = "Field" if dim == 3 else r.choice(["PlaneStrain", "Axi"])
        um = gen.gen_hyper(r, history=r.random() < 0.3)
        doc["items"] = [{"type": "SolidBody", "umat": um}]
        if r.random() < 0.3:
            fd = dim
            doc["items"].append({"type": "SolidBodyGravity", "gravity": [gen.rfloat(r, -0.1, 0.1) for _ in range(fd)], "density": 1.0})
    elif mode == "planestrain":
        dim = 2
        mesh = gen.gen_mesh(r, dim=2, allow=("linear",), max_cells=6)
        fkind = "PlaneStrain"
        doc["items"] = [{"type": "SolidBody", "umat": gen.gen_hyper(r, history=False)}]
    else:
        dim = 2
        mesh = gen.gen_mesh(r, dim=2, allow=("linear", "quadratic", "full"), max_cells=6)
        fkind = "Axi"
        doc["items"] = [{"type": "SolidBody", "umat": {"name": r.choice(["NeoHooke", "NeoHookeCompressible"]), "p": {"mu": mu, "bulk": round(5 * mu, 3), "lmbda": round(4 * mu, 3)}}}]
        if gen.kpick(seed, "axi-scale", 4) == 0:
            # a nano-scale model in SI-like units: radii of 1e-9, moduli such that forces stay of order
            # one (applied at the end, after the ramp has been drawn in the unit-sized model)
            doc["axi_units"] = {"L": 1e-9, "S": 1e18}
    doc["mesh"] = mesh
    doc["field"] = {"kind": fkind}
    case = r.choice(["uniaxial", "uniaxial", "shear", "custom"]) if fkind != "Axi" else r.choice(["uniaxial", "custom"])
    if mesh["gen"] == "Circle":
        case = "circle"
    bc = {"case": case}
    if case == "uniaxial":
        bc["clamped"] = r.random() < 0.7
        bc["sym"] = True
    if case == "custom":
        bc["list"] = [{"name": "fix", "fx": "min", "value": 0.0}, {"name": "move", "fx": "max", "skip": [False] + [r.random() < 0.5 for _ in range(dim - 1)], "value": 0.0, "ramped": True}]
    if case == "circle":
        bc = {"case": "custom", "list": [{"name": "fix", "fx": "min", "value": 0.0}, {"name": "move", "fx": "max", "skip": [False, False], "value": 0.0, "ramped": True}]}
    doc["bc"] = bc
    n = r.choice([1, 2, 3, 4])
    top = r.choice([-0.15, 0.1, 0.2, 0.3]) * mesh["b"][0]
    doc["steps"] = [{"ramp": [{"target": "bc:move", "values": gen.ramp_values(r, n, round(top, 5), r.choice(["mono", "mono", "updown", "nonuniform"]))}]}]
    doc["newton"] = {}
    if r.random() < 0.3:
        doc["newton"]["tol"] = r.choice([1e-8, 1e-10])
    doc["knobs"] = {"verbose": False, "clock": "normal", "clock_seed": 0}
    doc["faults"] = []
    if mode == "condensed" and r.random() < 0.3:
        doc["faults"].append({"kind": "solver_inexact", "rel": r.choice([1e-10, 1e-6, 1e-4]), "seed": r.randrange(1000)})
    doc["c10"] = {"mode": mode, "restart": mode == "condensed" and r.random() < 0.4, "probe_seed": r.randrange(1 << 30), "unrelated_dual": r.choice([None, None, False, True])}
    if mode == "condensed" and fkind != "Axi" and gen.kpick(seed, "soft-units", 5) == 0:
        # a very soft filler (or a unit system with large stress numbers elsewhere): moduli ten orders
        # below one, pressures of 1e-9; felupe's convergence criterion carries the constant 1e-3, so the
        # tolerance is set low enough to mean convergence at this force level
        u_ = gen.apply_units(doc, 1.0, 1e-10)
        if u_ is not None:
            doc = u_
            doc["newton"] = dict(doc.get("newton", {}), tol=1e-15, maxiter=40)
            doc["faults"] = []
            if gen.kpick(seed, "update-in-place", 3) == 0:
                doc["update_kind"] = "inplace"
            return doc
    if mode == "condensed" and gen.kpick(seed, "update-in-place", 3) == 0:
        # Newton's documented update= callable, here the in-place variant (x += dx): the field container
        # the body was created with carries every iterate
        doc["update_kind"] = "inplace"
    if doc.get("axi_units"):
        L_, S_ = doc["axi_units"]["L"], doc["axi_units"]["S"]
        mesh["a"] = [v * L_ for v in mesh["a"]]
        mesh["b"] = [v * L_ for v in mesh["b"]]
        pp = doc["items"][0]["umat"]["p"]
        for key_ in ("mu", "bulk", "lmbda"):
            pp[key_] = pp[key_] * S_
        for rr_ in doc["steps"][0]["ramp"]:
            rr_["values"] = [float(v * L_) for v in rr_["values"]]
        return doc
    return gen.maybe_units(doc)


def run_history(doc, log, monitors=()):
    dd = copy.deepcopy(doc)
    w = world.World(dd)
    eng = jobsim.Engine(w, dd, log, monitors=list(monitors))
    with eng:
        job, exc = eng.run_job()
    return w, eng, exc


def conv_tol(doc, scale):
    tol = doc.get("newton", {}).get("tol", 1.5e-8)
    return 2e-5 * max(1.0, tol / 1.5e-8) * scale


# ----------------------------------------------------------------------------------------
def static_force_twin(doc, log):
    """Independent of any Newton run: at one deformed state the settled condensed body gives the nodal
    forces of the explicit (u, p, J) formulation evaluated with the body's own cell pressures and volume
    ratios (the u-block of the three-field residual)."""
    dd = copy.deepcopy(doc)
    dd["faults"] = []
    wa = world.World(dd)
    d2 = copy.deepcopy(dd)
    it = d2["items"][0]
    d2["items"][0] = {"type": "SolidBody", "umat": {"name": "NearlyIncompressible", "p": {"mu": it["umat"]["p"]["mu"], "bulk": it["bulk"]}}}
    fk = doc["field"]["kind"]
    d2["field"] = {"kind": "Mixed3"}
    if fk == "PlaneStrain":
        d2["field"]["planestrain"] = True
    if fk == "Axi":
        d2["field"]["axisymmetric"] = True
    wb = world.World(d2)
    rng = np.random.default_rng(doc["c10"]["probe_seed"] + 5)
    pts = wa.mesh.points
    span = float((pts.max(0) - pts.min(0)).max())
    dim = pts.shape[1]
    u = (pts - pts.min(0)) @ (0.15 * rng.uniform(-1, 1, (dim, dim))).T + 0.01 * span * rng.normal(size=pts.shape)
    if fk == "Axi":
        u[np.abs(pts[:, 1]) < 1e-12 * span, 1] = 0.0
    body = wa.items[0]
    wa.field[0].values[...] = u
    for _ in range(3):
        rc = body.assemble.vector(wa.field).toarray().ravel()
    p_ = np.asarray(body.results.state.p)
    J_ = np.asarray(body.results.state.J)
    if wb.field[1].values.size != p_.size or not np.all(np.isfinite(rc)):
        return
    wb.field[0].values[...] = u
    wb.field[1].values[...] = p_.reshape(-1, 1)
    wb.field[2].values[...] = J_.reshape(-1, 1)
    re = wb.items[0].assemble.vector(wb.field).toarray().ravel()[: u.size]
    if not np.all(np.isfinite(re)):
        return
    sc = float(np.abs(re).max()) + 1e-300
    d = float(np.abs(rc - re).max())
    if d > 1e-9 * sc:
        raise Violation(PROP, "condensed-vs-explicit", f"nodal forces of the settled condensed body differ from the u-block of the explicit (u, p, J) residual at the same displacements, cell pressures and volume ratios by {d:.3e} (scale {sc:.3e}, bulk {doc['items'][0]['bulk']})", site="SolidBodyNearlyIncompressible.vector-vs-explicit")
    log.count("static-force-twin-compared")
    # the explicit formulation at another state, tangent first: the field values are changed in place
    # (same containers, same value arrays) and the matrix is requested without the forces - it is the
    # matrix of a newly created model brought to that state by vector(field) and matrix()
    u2 = u + (pts - pts.min(0)) @ (0.1 * rng.uniform(-1, 1, (dim, dim))).T
    if fk == "Axi":
        u2[np.abs(pts[:, 1]) < 1e-12 * span, 1] = 0.0
    if doc["c10"]["probe_seed"] % 2:
        # (the other explicit three-field formulation of the library: same protocol)
        d2 = copy.deepcopy(d2)
        d2["items"][0]["umat"]["name"] = "ThreeField"
        wb = world.World(copy.deepcopy(d2))
        wb.field[0].values[...] = u
        wb.field[1].values[...] = p_.reshape(-1, 1)
        wb.field[2].values[...] = J_.reshape(-1, 1)
        wb.items[0].assemble.vector(wb.field)
        wb.items[0].assemble.matrix()
    wb.field[0].values[...] = u2
    K_first = wb.items[0].assemble.matrix(wb.field).toarray()
    wc = world.World(copy.deepcopy(d2))
    wc.field[0].values[...] = u2
    wc.field[1].values[...] = p_.reshape(-1, 1)
    wc.field[2].values[...] = J_.reshape(-1, 1)
    wc.items[0].assemble.vector(wc.field)
    K_cold = wc.items[0].assemble.matrix().toarray()
    if np.all(np.isfinite(K_cold)) and np.all(np.isfinite(K_first)):
        ok, rel = close_exact_twin(K_first, K_cold, rtol=1e-9, atol=1e-10 * float(np.abs(K_cold).max()))
        if not ok:
            raise Violation(PROP, "condensed-vs-explicit", f"explicit (u, p, J) body: matrix(field) requested first at a state written in place into the same value arrays differs from vector(field) + matrix() of a newly created model at that state (rel {rel:.2e})", site="ThreeField.matrix-first")
        log.count("explicit-matrix-first-compared")


def run_condensed(doc, log):
    static_force_twin(doc, log)
    w, eng, exc = run_history(doc, log)
    if exc is not None:
        if isinstance(exc, ValueError):
            raise Discard("condensed-did-not-converge")
        raise exc
    # explicit three-field twin on the same history
    d2 = copy.deepcopy(doc)
    it = d2["items"][0]
    d2["items"][0] = {"type": "SolidBody", "umat": {"name": "NearlyIncompressible", "p": {"mu": it["umat"]["p"]["mu"], "bulk": it["bulk"]}}}
    fk = doc["field"]["kind"]
    d2["field"] = {"kind": "Mixed3"}
    if fk == "PlaneStrain":
        d2["field"]["planestrain"] = True
    if fk == "Axi":
        d2["field"]["axisymmetric"] = True
    d2["faults"] = []
    log2 = EventLog()
    ud = doc["c10"].get("unrelated_dual")
    if ud is not None:
        # an unrelated dual field with an explicit option, created earlier in the same process,
        # must not influence the mixed fields created afterwards
        fem.FieldDual(w.region, disconnect=ud)
        log.count("unrelated-dual-field-created-before")
    w2, eng2, exc2 = run_history(d2, log2)
    if exc2 is not None:
        if isinstance(exc2, ValueError):
            raise Discard("explicit-did-not-converge")
        raise exc2
    if len(eng.callbacks) != len(eng2.callbacks):
        raise Violation(PROP, "condensed-vs-explicit", "different number of converged substeps", site="history")
    fkd = "solver_inexact" if eng.fired else None
    bulk = doc["items"][0]["bulk"]
    for n, (a, b) in enumerate(zip(eng.callbacks, eng2.callbacks)):
        ua, ub = a["x"][0], b["x"][0]
        scale = max(float(np.abs(ub).max()), 0.05)
        d = float(np.abs(ua - ub).max())
        if d > conv_tol(doc, scale):
            raise Violation(PROP, "condensed-vs-explicit", f"substep {n}: displacements of the condensed body differ from the explicit (u,p,J) formulation by {d:.3e} (scale {scale:.2e}, bulk {bulk})", site="SolidBodyNearlyIncompressible.u", fault=fkd)
    # pressures and volume ratios at the end (the live objects hold the last state)
    st = w.items[0].results.state
    p2 = w2.field[1].values.ravel()
    J2 = w2.field[2].values.ravel()
    # the condensed state is advanced by a linearised update: compare at a settled state
    w.items[0].assemble.vector(field=w.items[0].field)
    w.items[0].assemble.vector(field=w.items[0].field)
    pj_scale = max(float(np.abs(p2).max()), 1e-3 * bulk)
    d = float(np.abs(st.p - p2).max())
    if d > 50 * conv_tol(doc, pj_scale) + 1e-9:
        raise Violation(PROP, "condensed-vs-explicit", f"cell pressures differ from the explicit formulation by {d:.3e} (scale {pj_scale:.2e}, bulk {bulk})", site="SolidBodyNearlyIncompressible.p", fault=fkd)
    d = float(np.abs(st.J - J2).max())
    # J = 1 + p / bulk in both formulations: the tolerance of J is that of p divided by bulk
    tolJ = 2 * (50 * conv_tol(doc, pj_scale) + 1e-9) / bulk + 1e-8
    if d > tolJ:
        raise Violation(PROP, "condensed-vs-explicit", f"cell volume ratios differ from the explicit formulation by {d:.3e} (bulk {bulk})", site="SolidBodyNearlyIncompressible.J", fault=fkd)
    log.count("condensed-vs-explicit-compared")
    # a body re-created on the converged displacement field (restart from saved displacements,
    # post-processing): its condensed state must be that of the explicit formulation at once
    mesh3 = world.build_mesh(doc["mesh"])
    region3 = world.build_region(mesh3, doc.get("region"))
    field3 = world.build_field(region3, doc["field"])
    field3[0].values[:] = eng.callbacks[-1]["x"][0]
    fresh = fem.SolidBodyNearlyIncompressible(world.build_umat(doc["items"][0]["umat"]), field3, bulk=bulk)
    d = float(np.abs(fresh.results.state.p - p2).max())
    if d > 50 * conv_tol(doc, pj_scale) + 1e-9:
        raise Violation(PROP, "condensed-vs-explicit", f"a body created on the converged displacement field carries cell pressures that differ from the explicit formulation by {d:.3e} (scale {pj_scale:.2e})", site="SolidBodyNearlyIncompressible.recreated.p", fault=fkd)
    d = float(np.abs(fresh.results.state.J - J2).max())
    if d > tolJ:
        raise Violation(PROP, "condensed-vs-explicit", f"a body created on the converged displacement field carries volume ratios that differ from the explicit formulation by {d:.3e}", site="SolidBodyNearlyIncompressible.recreated.J", fault=fkd)
    Kf = fresh.assemble.matrix().toarray()
    w.items[0].assemble.vector(field=w.items[0].field)
    Ks = w.items[0].assemble.matrix().toarray()
    ok, rel = close_exact_twin(Kf, Ks, rtol=1e-6, atol=1e-7 * float(np.abs(Ks).max()))
    if not ok:
        raise Violation(PROP, "condensed-vs-explicit", f"matrix of a body created on the converged displacement field differs from the settled body's (rel {rel:.2e})", site="SolidBodyNearlyIncompressible.recreated.matrix", fault=fkd)
    log.count("recreated-body-compared")
    # a diverged (non-finite) iterate seen by the fresh body, then the converged displacements again:
    # the condensed state recovers (same pressures / volume ratios as the explicit formulation)
    good = field3[0].values.copy()
    field3[0].values = np.full_like(good, np.nan)  # (new arrays: a fresh body's stored displacements alias the field's array)
    with np.errstate(all="ignore"):
        fresh.assemble.vector(field=field3)
    field3[0].values = good.copy()
    with np.errstate(all="ignore"):
        rr = fresh.assemble.vector(field=field3).toarray()  # the very first evaluation must be finite again
        fresh.assemble.vector(field=field3)
    if not (np.all(np.isfinite(rr)) and np.all(np.isfinite(fresh.results.state.p)) and np.all(np.isfinite(fresh.results.state.J))):
        raise Violation(PROP, "condensed-vs-explicit", "after one non-finite iterate the condensed body stays non-finite at the (restored) converged displacements", site="SolidBodyNearlyIncompressible.recovery", fault=fkd)
    d = float(np.abs(fresh.results.state.p - p2).max())
    if d > 50 * conv_tol(doc, pj_scale) + 1e-9:
        raise Violation(PROP, "condensed-vs-explicit", f"after one non-finite iterate and the restored displacements the cell pressures differ from the explicit formulation by {d:.3e}", site="SolidBodyNearlyIncompressible.recovery.p", fault=fkd)
    log.count("recovery-after-nonfinite-iterate")
    # the live body moved to an earlier state through the evaluate.* API (post-processing), then
    # asked for its matrix without a field: same matrix as a cold body brought there by vector(field)
    if len(eng.callbacks) >= 2:
        final = eng.callbacks[-1]["x"]
        earlier = eng.callbacks[0]["x"]
        live = w.items[0]
        # live body: settled at the final state (two residual evaluations above), moved to the
        # earlier state by ONE evaluate call, then matrix() without a field
        w.set_values(earlier)
        if doc["field"]["kind"] == "Field":
            live.evaluate.cauchy_stress(live.field)
        else:
            live.evaluate.gradient(live.field)
        K_live = live.assemble.matrix().toarray()
        # twin body: same state sequence, but moved by assemble.vector(field)
        field4 = world.build_field(world.build_region(world.build_mesh(doc["mesh"]), doc.get("region")), doc["field"])
        cold = fem.SolidBodyNearlyIncompressible(world.build_umat(doc["items"][0]["umat"]), field4, bulk=bulk)
        # (new arrays, not in-place writes: the state of a fresh body aliases the field's first array)
        field4[0].values = np.array(final[0], copy=True)
        cold.assemble.vector(field4)
        cold.assemble.vector(field4)
        field4[0].values = np.array(earlier[0], copy=True)
        cold.assemble.vector(field4)
        K_cold = cold.assemble.matrix().toarray()
        ok, rel = close_exact_twin(K_live, K_cold, rtol=1e-7, atol=1e-8 * float(np.abs(K_cold).max()))
        if not ok:
            raise Violation(PROP, "condensed-vs-explicit", f"matrix() after the body was moved to another state through evaluate.*(field) differs from the matrix of a body taken through the same states by vector(field) (rel {rel:.2e})", site="SolidBodyNearlyIncompressible.matrix-after-evaluate", fault=fkd)
        log.count("matrix-after-evaluate-compared")
        # and back to the final state in the other call order: the live body is moved by the tangent
        # look matrix(field) and then asked for its forces without a field, the twin by
        # vector(field) and then matrix() - one state, one set of forces and one tangent
        w.set_values(final)
        K_live = live.assemble.matrix(live.field).toarray()
        r_live = live.assemble.vector().toarray()[:, 0]
        field4[0].values = np.array(final[0], copy=True)
        r_cold = cold.assemble.vector(field4).toarray()[:, 0]
        K_cold = cold.assemble.matrix().toarray()
        ok, rel = close_exact_twin(K_live, K_cold, rtol=1e-7, atol=1e-8 * float(np.abs(K_cold).max()))
        if not ok:
            raise Violation(PROP, "condensed-vs-explicit", f"matrix(field) of the condensed body differs from vector(field) followed by matrix() at the same state sequence (rel {rel:.2e})", site="SolidBodyNearlyIncompressible.matrix-first", fault=fkd)
        ok, rel = close_exact_twin(r_live, r_cold, rtol=1e-7, atol=1e-8 * float(np.abs(K_cold).max()) * max(float(np.abs(final[0]).max()), 1e-3))
        if not ok:
            raise Violation(PROP, "condensed-vs-explicit", f"vector() without a field after the tangent look matrix(field) differs from vector(field) at the same state sequence (rel {rel:.2e})", site="SolidBodyNearlyIncompressible.vector-after-matrix", fault=fkd)
        log.count("matrix-first-order-compared")
    if doc["mesh"].get("perturb"):
        log.count("distorted-mesh")
    # restart that drops the condensed state ---------------------------------------------------------
    ncb = len(eng.callbacks)
    if doc["c10"].get("restart") and ncb >= 2 and not doc["faults"]:
        from .C15 import restart_check, total_substeps

        ra = Streams(doc["c10"]["probe_seed"])["probe"].randrange(ncb - 1)
        # record durable start states the restart check needs
        restart_with_state_drop(doc, eng, ra, log)
        log.count("restart-dropped-state")
    return eng


def restart_with_state_drop(doc, eng, ra, log):
    """Run the rest of the history in a world rebuilt from (values, statevars) only."""
    from .C15 import apply_model_ramp, flat_index

    j, i = flat_index(doc, ra)
    d2 = copy.deepcopy(doc)
    d2["faults"] = []
    w2 = world.World(d2)
    apply_model_ramp(w2, j, i)
    w2.set_values(eng.callbacks[ra]["x"])
    s = copy.deepcopy(doc["steps"][j])
    for r in s["ramp"]:
        r["values"] = r["values"][i + 1 :]
    kw = {k: v for k, v in doc.get("newton", {}).items() if k in ("tol", "maxiter")}
    step = w2._build_step(s)
    try:
        results = list(step.generate(verbose=False, **kw))
    except ValueError:
        raise Discard("restart-did-not-converge")
    tail = eng.callbacks[ra + 1 :]
    for n, (a, b) in enumerate(zip(results, tail)):
        ua = a.x[0].values
        scale = max(float(np.abs(b["x"][0]).max()), 0.05)
        d = float(np.abs(ua - b["x"][0]).max())
        if d > 0.05 * float(np.max(doc["mesh"]["b"])):
            # a different equilibrium branch (the restart starts with p = 0): the problem has more
            # than one solution, which the property does not exclude
            raise Discard("restart-found-another-equilibrium")
        if d > conv_tol(doc, scale):
            raise Violation(PROP, "restart-equivalence", f"substep {ra+1+n}: a world rebuilt without the condensed (p, J) state converges to a different field (diff {d:.3e})", site="SolidBodyNearlyIncompressible.state")


# ----------------------------------------------------------------------------------------
class Recorder(jobsim.Monitor):
    def __init__(self):
        self.K = []
        self.f = []

    def on_solve(self, eng, c, it):
        self.K.append(it["K"].toarray())
        self.f.append(-np.asarray(it["b"]))
        self.x = getattr(self, "x", [])
        self.x.append(np.concatenate([v.ravel() for v in it["x"]]))


def run_uniform(doc, log):
    rec1 = Recorder()
    w1, eng1, exc1 = run_history(doc, log, [rec1])
    d2 = copy.deepcopy(doc)
    d2["region"] = {"uniform": True}
    rec2 = Recorder()
    log2 = EventLog()
    w2, eng2, exc2 = run_history(d2, log2, [rec2])
    if (exc1 is None) != (exc2 is None):
        if isinstance(exc1 or exc2, ValueError):
            # borderline convergence: rounding differences decide whether maxiter is reached
            n1, n2 = len(eng1.callbacks), len(eng2.callbacks)
            if abs(n1 - n2) <= 1:
                raise Discard("borderline-convergence")
            if doc["items"][0]["umat"]["name"] in world.HISTORY_MATERIALS:
                # the first iterate of a substep after plastic flow / at the maximum of the history
                # sits exactly on the switch: which branch the tangent takes per point is decided
                # by rounding, the iteration histories (not the converged states) may part there
                raise Discard("iteration-histories-part-at-a-switch")
        raise Violation(PROP, "uniform-knob", f"general region: {type(exc1).__name__ if exc1 else 'converged'}, uniform-grid region: {type(exc2).__name__ if exc2 else 'converged'}", site="Region.uniform")
    if w2.region.dV.shape[-1] != 1:
        raise Violation(PROP, "uniform-knob", "uniform=True did not select the uniform-grid path", site="Region.uniform")
    n = min(len(rec1.K), len(rec2.K))
    history_material = doc["items"][0]["umat"]["name"] in world.HISTORY_MATERIALS
    for k in range(n):
        # assembled arrays are comparable where both histories are at the same iterate; a
        # tangent with switches (yield surface, max-history) amplifies rounding differences
        if float(np.abs(rec1.x[k] - rec2.x[k]).max()) > 1e-15 or (history_material and k > 0):
            break
        sK = float(np.abs(rec1.K[k]).max()) + 1e-300
        ok, rel = close_exact_twin(rec2.K[k], rec1.K[k], rtol=1e-7, atol=1e-8 * sK)  # eigenvalue-based AD models amplify rounding at coincident stretches
        if not ok:
            raise Violation(PROP, "uniform-knob", f"matrix of Newton iteration {k} differs between the uniform-grid and the general region (rel {rel:.2e})", site="Region.uniform.matrix")
        sf = max(float(np.abs(rec1.f[k]).max()), 1e-6 * sK)
        ok, rel = close_exact_twin(rec2.f[k], rec1.f[k], rtol=1e-7, atol=1e-8 * sf)
        if not ok:
            raise Violation(PROP, "uniform-knob", f"vector of Newton iteration {k} differs between the uniform-grid and the general region (rel {rel:.2e})", site="Region.uniform.vector")
        log.count("uniform-knob-assembly-compared")
    for a, b in zip(eng1.callbacks, eng2.callbacks):
        scale = max(float(np.abs(a["x"][0]).max()), 0.05)
        d = float(np.abs(a["x"][0] - b["x"][0]).max())
        if d > conv_tol(doc, scale):
            raise Violation(PROP, "uniform-knob", f"converged state differs between the uniform-grid and the general region (diff {d:.3e})", site="Region.uniform.state")
    log.count("uniform-knob-compared")
    return eng1



def check_kinematics_buffers(w, um, log, kind):
    """The 3x3 kinematics of a 2D field kind are the zero-padded (plane strain) / hoop-completed
    (axisymmetric) in-plane gradient whatever the given `out=` arrays held before: the documented
    `out` argument of grad / extract, and a body evaluated again after its handed-out kinematics
    arrays were used as scratch by the caller."""
    rng = np.random.default_rng(7)
    ref = [np.array(a, copy=True) for a in w.field.extract()]
    f0 = w.field[0]
    for fill in (np.nan, 3.25):
        work = np.full(ref[0].shape, fill)
        got = f0.grad(out=work)
        got = np.asarray(got)
        want = np.asarray(f0.grad())
        if got.shape != want.shape or not np.array_equal(got, want, equal_nan=True):
            raise Violation(PROP, kind, f"field.grad(out=<array holding {fill}>) differs from field.grad() (max diff {np.nanmax(np.abs(got - want)) if got.shape == want.shape else 'shape'})", site=f"{type(f0).__name__}.grad(out)")
        works = [np.full(a.shape, fill) for a in ref]
        got = w.field.extract(out=works)
        for a, b_ in zip(got, ref):
            if np.shape(a) != b_.shape or not np.array_equal(np.asarray(a), b_, equal_nan=True):
                raise Violation(PROP, kind, f"field.extract(out=<arrays holding {fill}>) differs from field.extract()", site=f"{type(f0).__name__}.extract(out)")
    body = fem.SolidBody(um, w.field)
    r1 = body.assemble.vector(field=w.field).toarray()
    K1 = body.assemble.matrix(field=w.field).toarray()
    for a in body.results.kinematics:
        if isinstance(a, np.ndarray) and a.flags.writeable:
            a[...] = rng.normal(size=a.shape)
    r2 = body.assemble.vector(field=w.field).toarray()
    K2 = body.assemble.matrix(field=w.field).toarray()
    if not (np.array_equal(r1, r2, equal_nan=True) and np.array_equal(K1, K2, equal_nan=True)):
        dr = float(np.abs(r1 - r2).max())
        dK = float(np.abs(K1 - K2).max())
        raise Violation(PROP, kind, f"a body evaluated again at the same field after its handed-out kinematics arrays were overwritten gives other forces / stiffness (max diff {dr:.3e} / {dK:.3e})", site=f"{type(f0).__name__}.kinematics-buffer")
    # a second model of the same shape alive in the same process (two bodies / two jobs): what one
    # field handed out does not change when the other field is evaluated, and a body's stiffness
    # (from its stored kinematics) does not depend on what another body did in between
    w2 = world.World(copy.deepcopy(w.doc))
    w2.set_values([1.7 * np.asarray(v) + 0.003 * rng.normal(size=np.shape(v)) for v in w.values()])
    Fa = w.field.extract()
    keep = [np.array(a, copy=True) for a in Fa]
    bodyA = fem.SolidBody(um, w.field)
    rA = bodyA.assemble.vector(field=w.field).toarray()
    KA_ref = bodyA.assemble.matrix().toarray()
    bodyB = fem.SolidBody(um, w2.field)
    rA2 = bodyA.assemble.vector(field=w.field).toarray()
    bodyB.assemble.vector(field=w2.field)
    w2.field.extract()
    KA = bodyA.assemble.matrix().toarray()
    for a, b_ in zip(Fa, keep):
        if not np.array_equal(np.asarray(a), b_, equal_nan=True):
            raise Violation(PROP, kind, "an array returned by field.extract() changed when another field of the same shape was evaluated", site=f"{type(f0).__name__}.extract.shared")
    if not (np.array_equal(KA, KA_ref, equal_nan=True) and np.array_equal(rA, rA2, equal_nan=True)):
        raise Violation(PROP, kind, f"the stiffness of a body (from its stored kinematics) changed after another body of the same shape was evaluated (max diff {np.nanmax(np.abs(KA - KA_ref)):.3e})", site=f"{type(f0).__name__}.two-bodies")
    log.count("kinematics-buffers-checked")

# ----------------------------------------------------------------------------------------
def run_planestrain(doc, log):
    w, eng, exc = run_history(doc, log)
    if exc is not None and not isinstance(exc, ValueError):
        raise exc
    if not eng.callbacks:
        raise Discard("no-converged-state")
    m2 = w.mesh
    b = doc["mesh"]["b"]
    # unit-thickness slab: the 2D mesh extruded by one cell
    m3 = m2.expand(n=2, z=1.0)
    r3 = fem.RegionHexahedron(m3)
    f3 = fem.FieldContainer([fem.Field(r3, dim=3)])
    um = world.build_umat(doc["items"][0]["umat"])
    body3 = fem.SolidBody(um, f3)
    um2 = world.build_umat(doc["items"][0]["umat"])
    # map 3D points to 2D points by in-plane coordinates
    idx = np.array([int(np.argmin(np.linalg.norm(m2.points - p[:2], axis=1))) for p in m3.points])
    if not np.allclose(m2.points[idx], m3.points[:, :2]):
        raise Discard("extrusion-mapping-failed")
    for rec in eng.callbacks[-2:]:
        u2 = rec["x"][0]
        f3[0].values[:] = 0.0
        f3[0].values[:, :2] = u2[idx]
        r = body3.assemble.vector(field=f3).toarray().reshape(-1, 3)
        K3 = body3.assemble.matrix().toarray()
        w.set_values(rec["x"])
        check_kinematics_buffers(w, um2, log, "planestrain-slab")
        body2 = fem.SolidBody(um2, w.field)
        r2 = body2.assemble.vector(field=w.field).toarray().reshape(-1, 2)
        K2 = body2.assemble.matrix().toarray()
        fsum = np.zeros_like(r2)
        np.add.at(fsum, idx, r[:, :2])
        sc = float(np.abs(r2).max()) + 1e-6 * float(np.abs(K2).max())
        ok, rel = close_exact_twin(fsum, r2, rtol=1e-9, atol=1e-10 * sc)
        if not ok:
            raise Violation(PROP, "planestrain-slab", f"in-plane nodal forces of the plane-strain body differ from the unit-thickness slab (rel {rel:.2e})", site="FieldPlaneStrain.vector")
        # stiffness: sum the in-plane dofs of both layers
        n2 = m2.npoints * 2
        T = np.zeros((m3.npoints * 3, n2))
        for p3, p2 in enumerate(idx):
            T[3 * p3, 2 * p2] = 1.0
            T[3 * p3 + 1, 2 * p2 + 1] = 1.0
        Kc = T.T @ K3 @ T
        ok, rel = close_exact_twin(Kc, K2, rtol=1e-9, atol=1e-10 * float(np.abs(K2).max()))
        if not ok:
            raise Violation(PROP, "planestrain-slab", f"in-plane stiffness of the plane-strain body differs from the unit-thickness slab (rel {rel:.2e})", site="FieldPlaneStrain.matrix")
        log.count("planestrain-slab-compared")
    return eng


def run_axi(doc, log):
    w, eng, exc = run_history(doc, log)
    if exc is not None and not isinstance(exc, ValueError):
        raise exc
    if not eng.callbacks:
        raise Discard("no-converged-state")
    um = world.build_umat(doc["items"][0]["umat"])
    rng = np.random.default_rng(doc["c10"]["probe_seed"])
    R = w.field[0].radius
    dV = 2 * np.pi * R * w.region.dV

    def energy(vals):
        w.set_values([vals])
        F = w.field.extract()[0]
        W = um.function([F, np.zeros((0,) + F.shape[-2:])])[0]
        return float((W * dV).sum())

    rec = eng.callbacks[-1]
    u = rec["x"][0].copy()
    # a state off equilibrium so that the forces are not all zero
    Lu = float((doc.get("axi_units") or {}).get("L", 1.0))
    Su = float((doc.get("axi_units") or {}).get("S", 1.0))
    Fu = Su * Lu * Lu  # force unit
    u = u + 0.01 * Lu * rng.normal(size=u.shape) * (w.mesh.points[:, [1]] > 1e-12 * Lu)
    w.set_values([u])
    check_kinematics_buffers(w, um, log, "axisymmetric-energy")
    body = fem.SolidBody(um, w.field)
    f = body.assemble.vector(field=w.field).toarray().reshape(u.shape)
    # one evaluated stress array used for several forms (reactions, post-processing): every
    # assembly gives the same forces, the caller's array and the body's stored stress stay what
    # the material returned
    Fx = w.field.extract()[0]
    P = um.gradient([Fx, np.zeros((0,) + Fx.shape[-2:])])[0]
    Pkeep = P.copy()
    sc_ = float(np.abs(f).max()) + 1e-9 * Fu
    for n_ in range(3):
        fn = fem.IntegralForm([P], v=w.field, dV=w.region.dV).assemble().toarray().reshape(u.shape)
        if not np.array_equal(P, Pkeep, equal_nan=True):
            raise Violation(PROP, "axisymmetric-energy", f"assembling an axisymmetric force form changed the caller's stress array (max change {np.abs(P-Pkeep).max():.3e})", site="IntegralFormAxisymmetric.inputs")
        if np.all(np.isfinite(f)) and float(np.abs(fn - f).max()) > 1e-10 * sc_:
            raise Violation(PROP, "axisymmetric-energy", f"assembly {n_ + 1} of the same stress array differs from the body's nodal forces by {np.abs(fn - f).max():.3e}", site="IntegralFormAxisymmetric.repeat")
    st = body.results.stress[0] if isinstance(body.results.stress, (list, tuple)) else body.results.stress
    if st is not None and np.shape(st) == Pkeep.shape and float(np.abs(np.asarray(st) - Pkeep).max()) > 1e-10 * (float(np.abs(Pkeep).max()) + 1e-9):
        raise Violation(PROP, "axisymmetric-energy", f"stress stored by the body after the assembly differs from the material's stress at the same state by {np.abs(np.asarray(st) - Pkeep).max():.3e}", site="SolidBody.results.stress[axisymmetric]")
    log.count("axisymmetric-stress-reused")
    for _ in range(4):
        p = int(rng.integers(u.shape[0]))
        cidx = int(rng.integers(2))
        h = 1e-6 * Lu
        up = u.copy()
        um_ = u.copy()
        up[p, cidx] += h
        um_[p, cidx] -= h
        g = (energy(up) - energy(um_)) / (2 * h)
        if not (np.isfinite(g) and np.isfinite(f[p, cidx])):
            raise Discard("axisymmetric-probe-state-outside-domain")
        sc = float(np.abs(f).max()) + 1e-9 * Fu
        if abs(g - f[p, cidx]) > 1e-5 * sc + 1e-8 * Fu:
            raise Violation(PROP, "axisymmetric-energy", f"axisymmetric nodal force {f[p, cidx]:.8e} differs from the derivative of the 2 pi R weighted energy {g:.8e} (point {p}, component {cidx})", site="FieldAxisymmetric.vector")
        log.count("axisymmetric-energy-compared")
    # a second model on the SAME region object after the geometry was moved radially in place
    # (mesh.update with the region's reload as callback - a study over the tube radius): forces of a
    # new axisymmetric field on the reloaded region against the energy with independently
    # interpolated radii
    newp = w.mesh.points.copy()
    newp[:, 1] = 1.5 * newp[:, 1] + 0.3 * Lu
    w.mesh.update(points=newp, callback=w.region.reload)
    if np.any(w.region.dV <= 0):
        raise Discard("invalid-mesh-after-reload")
    fld2 = fem.FieldContainer([fem.FieldAxisymmetric(w.region, dim=2)])
    hq = np.asarray(w.region.h)[..., 0] if np.asarray(w.region.h).ndim == 3 else np.asarray(w.region.h)  # (a, q)
    R2 = np.einsum("aq,ca->qc", hq, w.mesh.points[w.mesh.cells][:, :, 1])
    dV2 = 2 * np.pi * R2 * w.region.dV
    u2 = 0.02 * Lu * rng.normal(size=(w.mesh.npoints, 2))

    def energy2(vals):
        fld2[0].values[...] = vals
        F = fld2.extract()[0]
        W = um.function([F, np.zeros((0,) + F.shape[-2:])])[0]
        return float((W * dV2).sum())

    fld2[0].values[...] = u2
    f2 = fem.SolidBody(um, fld2).assemble.vector(field=fld2).toarray().reshape(u2.shape)
    for _ in range(3):
        p = int(rng.integers(u2.shape[0]))
        cidx = int(rng.integers(2))
        h = 1e-6 * Lu
        up, um_ = u2.copy(), u2.copy()
        up[p, cidx] += h
        um_[p, cidx] -= h
        g = (energy2(up) - energy2(um_)) / (2 * h)
        if not (np.isfinite(g) and np.isfinite(f2[p, cidx])):
            raise Discard("axisymmetric-probe-state-outside-domain")
        sc = float(np.abs(f2).max()) + 1e-9 * Fu
        if abs(g - f2[p, cidx]) > 1e-5 * sc + 1e-8 * Fu:
            raise Violation(PROP, "axisymmetric-energy", f"new axisymmetric field on a region reloaded after a radial move of the mesh: nodal force {f2[p, cidx]:.8e} differs from the derivative of the 2 pi R weighted energy {g:.8e} (point {p}, component {cidx})", site="FieldAxisymmetric.vector[after-region-reload]")
    log.count("axisymmetric-energy-after-reload")
    return eng


def run(doc, log):
    mode = doc["c10"]["mode"]
    eng = {"condensed": run_condensed, "uniform": run_uniform, "planestrain": run_planestrain, "axi": run_axi}[mode](doc, log)
    sig = "|".join([mode, doc["mesh"]["gen"] + str(doc["mesh"]["n"]) + str(doc["c10"].get("unrelated_dual")), str(doc["mesh"].get("convert")), doc["field"]["kind"], doc["items"][0]["type"] + ":" + doc["items"][0]["umat"]["name"], doc["bc"]["case"], str(len(doc["steps"][0]["ramp"][0]["values"])), str(doc["items"][0].get("bulk")), "inexact" if eng.fired else ""])
    return {
        "signature": sig,
        "nontrivial": len(eng.callbacks) >= 1,
        "faults_fired": [f["kind"] for f in eng.fired],
        "sim": {"substeps_converged": len(eng.callbacks), "newton_calls": len(eng.history)},
    }


def shrink(doc):
    from .C07 import shrink as s7

    out = s7(doc)
    if doc["c10"].get("restart"):
        d = copy.deepcopy(doc)
        d["c10"]["restart"] = False
        out.append(d)
    return out
