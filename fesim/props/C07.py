"""C07 - a successful Newton solve returns an equilibrium that honours the constraints.

Simulated: Job / Step / newtonrhapson over generated problems with the linear solver seam
exact, inexact (F3) or failing (F1/F2/F4), the material failing (F5), continuation over
substeps and steps, skewed clocks (F12).
"""
import copy

import numpy as np

import felupe as fem
import felupe.tools._newton as _newton_mod

from .. import gen, jobsim, world
from ..kernel import Discard, EventLog, InjectedFault, Violation, close_exact_twin

PROP = "C07"


def generate(seed, tier, k):
    r = gen.Streams(seed)["top"]
    profile = r.choice(["general", "general", "general", "linear", "history"])
    doc = gen.gen_job(seed, profile=profile)
    mode = k % 3  # fault-free, fault-injecting, fault-injecting
    if mode != 0:
        gen.add_faults(doc, seed, p_fault=1.0)
    doc["c07"] = {"clock_twin": r.random() < 0.15, "x0": r.random() < 0.15}
    # newtonrhapson called directly with its default fun / jac (x0, umat) instead of items
    simple = len(doc["items"]) == 1 and doc["items"][0]["type"] == "SolidBody" and doc["items"][0]["umat"]["name"] not in world.HISTORY_MATERIALS + ("ThreeField", "NearlyIncompressible", "LinearElastic") and "multiplier" not in doc["items"][0] and doc["field"]["kind"] != "Mixed3"
    if simple and len(doc["steps"]) == 1 and r.random() < 0.25:
        doc["c07"]["direct"] = True
        doc["c07"]["x0"] = False
        doc["c07"]["clock_twin"] = False
    # the documented update= callable of Newton's method: default (out of place), in place (the
    # same field object and value arrays carry every iterate), or a copy that is then incremented
    doc["update_kind"] = (None, None, "inplace", "copy")[gen.kpick(seed, "update-kind", 4)]
    return gen.maybe_units(doc)


class C07Monitor(jobsim.Monitor):
    def __init__(self, log):
        self.log = log
        self.start = None
        self.linear = False

    def V(self, monitor, detail, site=None, fault=None):
        raise Violation(PROP, monitor, detail, site=site, fault=fault)

    # ------------------------------------------------------------------------------------
    def on_substep_start(self, eng, c):
        c["durable_start"] = eng.w.durable()
        c["fault_kinds_before"] = len(eng.fired)

    def _faulted(self, eng, c, it=None):
        """Fault kinds that fired inside this substep (optionally: inside iteration it)."""
        out = []
        for f in eng.fired:
            if f["kind"] == "solver_inexact":
                out.append(f["kind"])
            elif f.get("step") == c["step"] and f.get("substep") == c["substep"]:
                if it is None or f.get("iter", it) == it:
                    out.append(f["kind"])
        return out

    # -- reduced system ----------------------------------------------------------------------
    def after_solve(self, eng, c, it):
        dof0, dof1, ext0 = c["dof0"], c["dof1"], c["ext0"]
        x = np.concatenate([v.ravel() for v in it["x"]])
        u0 = x[dof0]
        dx = np.asarray(it["dx"]).ravel()
        # prescribed increments are set, whatever the linear solver did
        want = ext0 - u0
        if not np.allclose(dx[dof0], want, rtol=1e-13, atol=1e-15):
            self.V("reduced-system", f"dx[dof0] != ext0-u0, max diff {np.abs(dx[dof0]-want).max():.3e}", site="solve.dx0")
        if len(it["lin"]) != 1:
            self.V("reduced-system", f"{len(it['lin'])} linear solver calls in one Newton iteration", site="solve.calls")
        lin = it["lin"][0]
        K = it["K"].tocsr()
        K11 = K[dof1, :][:, dof1]
        # K10 (ext0 - u0) from the prescribed increments laid out as a full vector (every
        # prescribed unknown counts once, however often the boundaries select it)
        u0d, first = np.unique(dof0, return_index=True)
        b = it["b"][dof1] - K[dof1, :][:, u0d] @ want[first]
        ok, rel = close_exact_twin(lin["A"].toarray(), K11.toarray())
        if not ok:
            self.V("reduced-system", f"matrix handed to the linear solver is not K11 (rel {rel:.2e})", site="solve.A")
        ok, rel = close_exact_twin(np.asarray(lin["b"]).ravel(), b)
        if not ok:
            self.V("reduced-system", f"right-hand side handed to the linear solver is not -r1 - K10 (ext0-u0) (rel {rel:.2e})", site="solve.b")
        if "x" in lin:
            ok, rel = close_exact_twin(dx[dof1], np.asarray(lin["x"]).ravel(), rtol=1e-15)
            if not ok:
                self.V("reduced-system", "free increments are not the linear solver's answer", site="solve.dx1")
        self.log.count("reduced-system-checked")
        # the public helper tools.solve(K, rhs, field, dof0, dof1, offsets, ext0) is the same
        # partitioned solve, split per field (checked with the library's default solver)
        if c["iter"] == 0 and np.all(np.isfinite(it["b"])) and np.all(np.isfinite(K.data)):
            xo = it["xobj"]
            parts = fem.tools.solve(K, it["b"], xo, dof0, dof1, xo.offsets, ext0)
            got = np.concatenate([np.asarray(p).ravel() for p in parts])
            sizes = [f.values.size for f in xo.fields]
            if [np.asarray(p).size for p in parts] != sizes:
                self.V("reduced-system", f"tools.solve returns parts of sizes {[np.asarray(p).size for p in parts]} for fields of sizes {sizes}", site="tools.solve.split")
            if not np.allclose(got[dof0], want, rtol=1e-13, atol=1e-15):
                self.V("reduced-system", "tools.solve: prescribed increments are not ext0 - u0", site="tools.solve.dx0")
            lim = float("inf")
            if dof1.size and np.all(np.isfinite(got)):
                res_ = K11 @ got[dof1] - b
                lim = 1e-8 * (float(abs(K11).max()) * float(np.abs(got[dof1]).max()) * np.sqrt(dof1.size) + float(np.abs(b).max())) + 1e-300
                if np.linalg.norm(res_) > lim:
                    self.V("reduced-system", f"tools.solve: K11 dx1 = -r1 - K10 (ext0 - u0) is not satisfied (residual {np.linalg.norm(res_):.3e} > {lim:.3e})", site="tools.solve.dx1")
            self.log.count("tools-solve-checked")
            # hand-written loop: partition once, solve the same system repeatedly (frozen tangent,
            # several load cases): every solve satisfies the reduced system, inputs stay untouched
            from ..kernel import adigest

            rvec = -np.asarray(it["b"], dtype=float)
            system = fem.solve.partition(xo, K, dof1, dof0, rvec.copy())
            digs = [adigest(a.toarray() if hasattr(a, "toarray") else np.asarray(a)) for a in system]
            e0 = np.array(ext0, dtype=float, copy=True)
            sols = [np.asarray(fem.solve.solve(*system, e0)).ravel() for _ in range(3)]
            for k_, a in enumerate(system):
                if adigest(a.toarray() if hasattr(a, "toarray") else np.asarray(a)) != digs[k_]:
                    self.V("reduced-system", f"solve.solve modified entry {k_} of the partitioned system in place", site="solve.solve.inputs")
            if not np.array_equal(e0, ext0):
                self.V("reduced-system", "solve.solve modified the prescribed values in place", site="solve.solve.inputs")
            for n_, sol in enumerate(sols):
                if np.all(np.isfinite(sol)) and dof1.size:
                    res_ = K11 @ sol[dof1] - b
                    if np.linalg.norm(res_) > lim:
                        self.V("reduced-system", f"solve.solve call {n_ + 1} on the same partitioned system does not satisfy the reduced system (residual {np.linalg.norm(res_):.3e} > {lim:.3e})", site="solve.solve.repeated")
                if not np.allclose(sol[dof0], want, rtol=1e-13, atol=1e-15):
                    self.V("reduced-system", "solve.solve: prescribed increments are not ext0 - u0", site="solve.solve.dx0")
            self.log.count("partition-once-solve-thrice-checked")
            # the prescribed values left at their default (ext0 omitted): whatever increments the solve
            # puts on the prescribed unknowns (the code sets them to -u0, i.e. prescribed values 0) enter
            # the reduced system for the free unknowns
            sol0 = np.asarray(fem.solve.solve(*system)).ravel()
            if np.all(np.isfinite(sol0)) and dof1.size:
                u0d, first = np.unique(dof0, return_index=True)
                b0 = it["b"][dof1] - K[dof1, :][:, u0d] @ sol0[dof0][first]
                res0 = K11 @ sol0[dof1] - b0
                lim0 = 1e-8 * (float(abs(K11).max()) * float(np.abs(sol0[dof1]).max()) * np.sqrt(dof1.size) + float(np.abs(b0).max())) + 1e-300
                if np.linalg.norm(res0) > lim0:
                    self.V("reduced-system", f"solve.solve without ext0 sets increments on the prescribed unknowns (max {np.abs(sol0[dof0]).max():.3e}) that are missing in the reduced system of the free unknowns (residual {np.linalg.norm(res0):.3e} > {lim0:.3e})", site="solve.solve.default-ext0")
                if not np.allclose(sol0[dof0], -x[dof0], rtol=1e-13, atol=1e-15):
                    self.V("reduced-system", "solve.solve without ext0 does not bring the prescribed unknowns to zero (ext0 = None stands for prescribed values of zero)", site="solve.solve.default-ext0")
                self.log.count("default-ext0-checked")

    # -- results -----------------------------------------------------------------------------
    def on_substep_end(self, eng, c):
        tol = c["tol"]
        its = c["its"]
        any_success = any(i.get("success") for i in its)
        if c["outcome"] == "raised":
            e = c["exc"]
            self.log.count("substep-raised:" + type(e).__name__)
            if c["sv_end"] != c["sv_start"]:
                self.V(
                    "no-commit-on-failure",
                    f"state variables changed during a failing Newton call ({type(e).__name__})",
                    site="newtonrhapson",
                    fault=",".join(sorted(set(self._faulted(eng, c)))) or None,
                )
            if isinstance(e, InjectedFault) or isinstance(e, KeyboardInterrupt):
                return
            if not isinstance(e, ValueError):
                self.V("raise-not-return", f"undocumented exception type {type(e).__name__}: {e}", site="newtonrhapson.exc")
            if any_success:
                self.V("raise-not-return", "Newton raised although an iteration passed the convergence check", site="newtonrhapson.raise")
            return
        res = c["res"]
        self.log.count("substep-returned")
        if not (isinstance(res.success, (bool, np.bool_)) and bool(res.success)):
            self.V("raise-not-return", f"newtonrhapson returned a result with success={res.success!r}", site="newtonrhapson.return")
        last = its[-1]
        if not (last.get("success") and last["fnorm"] < tol):
            self.V("raise-not-return", f"returned although last fnorm {last.get('fnorm')} !< tol {tol}", site="newtonrhapson.return")
        if res.iterations != len(its) or len(res.fnorms) != len(its):
            self.V("raise-not-return", "iteration count of the result differs from the iterations performed", site="newtonrhapson.iterations")
        # prescribed values carried exactly
        x = np.concatenate([f.values.ravel() for f in res.x.fields])
        d = np.abs(x[c["dof0"]] - c["ext0"])
        if d.size and d.max() > 1e-14 * (1 + np.abs(c["ext0"]).max()):
            self.V("prescribed-exact", f"returned field differs from prescribed values by {d.max():.3e}", site="result.x")
        exp = world.expected_prescribed(eng.w, c["step"])
        if exp:
            idx = np.fromiter(exp.keys(), dtype=int)
            val = np.fromiter(exp.values(), dtype=float)
            d = np.abs(x[idx] - val)
            if d.max() > 1e-14 * (1 + np.abs(val).max()):
                self.V("prescribed-exact", f"returned field differs from the boundary values by {d.max():.3e} at unknown {int(idx[d.argmax()])}", site="result.x-vs-boundaries")
            if not set(idx.tolist()) <= set(c["dof0"].tolist()):
                self.V("prescribed-exact", "an unknown selected by a boundary is not in the prescribed set", site="dof0")
        # prescribed unknowns that no boundary selects (points without cells): held at the values they had
        covered_ = set(exp.keys()) if exp else set()
        held_ = np.array([int(v) for v in c["dof0"] if int(v) not in covered_], dtype=int)
        if held_.size:
            xs_ = np.concatenate([np.asarray(v).ravel() for v in c["x_start"]])
            dh_ = np.abs(x[held_] - xs_[held_])
            if dh_.max() > 1e-14 * (1 + np.abs(xs_[held_]).max()):
                self.V("prescribed-exact", f"a prescribed unknown that no boundary selects (point without cells) was moved by {dh_.max():.3e} from the value it had (unknown {int(held_[dh_.argmax()])})", site="result.x-held-unknowns")
            self.log.count("held-unknowns-checked")
        want0 = world.expected_dof0(eng.w, c["step"])
        got0 = set(int(v) for v in c["dof0"])
        if want0 != got0:
            self.V("prescribed-exact", f"the prescribed set handed to Newton differs from boundaries + listed points without cells: {len(got0 - want0)} unknowns too many, {len(want0 - got0)} missing", site="partition.dof0")
        self.log.count("partition-checked")
        # independent equilibrium: cold fork, committed state of the substep start
        fk = world.fork(eng.w, durable=c["durable_start"], step_index=c["step"], substep=c["substep"])
        fk.set_values([f.values for f in res.x.fields])
        step_items = [fk.items[k] for k in eng.doc["steps"][c["step"]].get("items", range(len(fk.items)))]
        r = world.ref_fun_items(fk, step_items)
        # absolute floor: rounding noise of the assembled internal forces
        cands = [float(np.abs(i["b"]).max()) for i in its if i["b"].size] + [float(abs(its[-1]["K"]).max()) * (float(np.abs(x).max()) + 1e-4)]
        fscale = max([v for v in cands if np.isfinite(v)] + [0.0])
        ok, rel = close_exact_twin(r, res.fun, atol=1e-11 * fscale + 1e-300)
        if not ok:
            self.V("independent-equilibrium", f"result.fun is not the residual of result.x (rel diff {rel:.2e})", site="result.fun")
        r1 = np.linalg.norm(r[c["dof1"]])
        r0 = np.linalg.norm(r[c["dof0"]])
        fnorm = r1 / (1e-3 + r0)
        # the solver judged its own vector, which agrees with the independent one to rounding (checked
        # above): near an unloaded state (reactions ~ 0) that rounding difference, divided by the
        # constant 1e-3 of the criterion, can exceed a tight tolerance - it is taken off here
        dfun = r - np.asarray(res.fun).ravel()
        d1 = float(np.linalg.norm(dfun[c["dof1"]]))
        d0 = float(np.linalg.norm(dfun[c["dof0"]]))
        if not fnorm < tol * (1 + 1e-6) + 1e-14 and max(r1 - d1, 0.0) / (1e-3 + r0 + d0) < tol * (1 + 1e-6) + 1e-14:
            self.log.count("equilibrium-within-rounding-of-solver-vector")
            fnorm = max(r1 - d1, 0.0) / (1e-3 + r0 + d0)
        if not fnorm < tol * (1 + 1e-6) + 1e-14:
            self.V("independent-equilibrium", f"independently assembled residual norm {fnorm:.3e} not below tol {tol:.3e}", site="result.x")
        self.log.count("equilibrium-checked")
        # commit on success: committed == trial of the final iterate (recomputed on the fork)
        for k, (item, fitem) in enumerate(zip(eng.w.items, fk.items)):
            res_l = getattr(item, "results", None)
            sv = getattr(res_l, "statevars", None)
            if sv is None or not hasattr(fitem.results, "_statevars") or fitem.results._statevars is None:
                continue
            if k not in [kk for kk in eng.doc["steps"][c["step"]].get("items", range(len(fk.items)))]:
                continue
            ok, rel = close_exact_twin(sv, fitem.results._statevars, rtol=1e-9)
            if not ok:
                self.V("commit-on-success", f"item {k}: committed state variables are not those of the converged iterate (rel {rel:.2e})", site="check.update_statevars")
            if sv.size:
                self.log.count("commit-checked")
        # linear problem: one update (exact solver only)
        if self.linear and not self._faulted(eng, c):
            K = its[0]["K"]
            xs_ = max(float(np.abs(x).max()), max(float(np.abs(v).max()) for v in c["x_start"]))  # also a return to zero has rounding noise of the size of the increment
            scale = abs(K).max() * (xs_ + 1e-300) * len(x)
            if 1e-12 * scale < tol * 1e-3 and res.iterations != 1:
                self.V("linear-one-update", f"linear problem needed {res.iterations} iterations", site="newtonrhapson")
            self.log.count("linear-one-update-checked")
        self.log.count(f"iterations:{min(res.iterations, 9)}")


def is_linear(doc):
    for it in doc["items"]:
        if it["type"] in ("SolidBody",):
            if it["umat"]["name"] != "LinearElastic":
                return False
        elif it["type"] not in ("PointLoad", "SolidBodyGravity", "SolidBodyForce"):
            return False
    return True


def simulate(doc, log, clock=None, collect=None):
    doc = copy.deepcopy(doc)
    if clock is not None:
        doc.setdefault("knobs", {})["clock"] = clock
    holder = {}

    def wrap(k, um, spec):
        return jobsim.wrap_umat(um, lambda *a: holder["eng"].umat_hook(k)(*a))

    w = world.World(doc, umat_wrap=wrap)
    mon = C07Monitor(log)
    mon.linear = is_linear(doc)
    eng = jobsim.Engine(w, doc, log, monitors=[mon])
    holder["eng"] = eng
    kw = {}
    if doc.get("c07", {}).get("x0"):
        kw["x0"] = w.field
    from felupe.constitution import CompositeMaterial

    # Newton's default fun / jac hand the material only the kinematics (no state-variable entry); a
    # composite (a & b) needs that entry by contract, so such documents go through the items path
    if doc.get("c07", {}).get("direct") and not isinstance(getattr(w.umats[0], "inner", w.umats[0]), CompositeMaterial):
        return simulate_direct(doc, log, w, eng)
    with eng:
        job, exc = eng.run_job(**kw)
    if exc is not None and not isinstance(exc, (ValueError, InjectedFault, KeyboardInterrupt)):
        raise Violation(PROP, "raise-not-return", f"undocumented exception {type(exc).__name__}: {exc}", site="job.exc")
    return eng, exc


def simulate_direct(doc, log, w, eng):
    """Drive newtonrhapson directly (default fun / jac on (x0, umat)) through the ramp."""
    from felupe.dof import apply, partition

    um = w.umats[0]
    field = w.field
    exc = None
    ek = eng.evaluate_kwargs()
    kw = {k: ek[k] for k in ("tol", "maxiter") if k in ek}
    nsub = len(doc["steps"][0]["ramp"][0]["values"])
    grad_kw = {}
    with eng:
        try:
            for i in range(nsub):
                w.apply_ramp(0, i)
                dof0, dof1 = partition(field, w.steps[0].boundaries)
                ext0 = apply(field, w.steps[0].boundaries, dof0)
                eng.step_of[id(None)] = 0
                res = eng._newton(x0=field, args=(um,), dof0=dof0, dof1=dof1, ext0=ext0, verbose=bool(ek.get("verbose")), **kw)
                field = res.x
                eng.callback(0, i, res)
        except BaseException as e:
            from ..kernel import HarnessError, origin

            if isinstance(e, (Violation, Discard, HarnessError)) or origin(e) == "harness":
                raise
            exc = e
    log.ev("direct-end", exc=None if exc is None else type(exc).__name__)
    log.count("direct-newton")
    if exc is not None and not isinstance(exc, (ValueError, InjectedFault, KeyboardInterrupt)):
        raise Violation(PROP, "raise-not-return", f"undocumented exception {type(exc).__name__}: {exc}", site="newtonrhapson.exc")
    return eng, exc


def run(doc, log):
    eng, exc = simulate(doc, log)
    nconv = len(eng.callbacks)
    if doc.get("c07", {}).get("clock_twin"):
        log2 = EventLog()
        twin = "backwards" if doc.get("knobs", {}).get("clock") != "backwards" else "normal"
        d2 = copy.deepcopy(doc)
        d2["knobs"]["verbose"] = 2
        log1 = EventLog()
        d1 = copy.deepcopy(doc)
        d1["knobs"]["verbose"] = 2
        simulate(d1, log1)
        simulate(d2, log2, clock=twin)
        log.count("clock-twin")
        if log1.digest() != log2.digest():
            raise Violation(PROP, "clock-independence", "run digest depends on the clock", site="perf_counter", fault="clock")
    fired = [f["kind"] for f in eng.fired]
    after_fault = 0
    if eng.fired:
        # substeps that converged after the last fault fired
        after_fault = sum(1 for c in eng.history if c["outcome"] == "returned")
    disp = 0.0
    if eng.callbacks:
        disp = float(max(np.abs(v).max() for v in eng.callbacks[-1]["x"]))
    sig = "|".join(
        [
            doc["mesh"]["gen"] + str(doc["mesh"].get("convert")),
            doc["field"]["kind"],
            "+".join(i["type"] + (":" + i["umat"]["name"] if "umat" in i else "") for i in doc["items"]),
            doc["bc"]["case"],
            "x".join(str(len(s["ramp"][0]["values"])) for s in doc["steps"]),
            ",".join(sorted(set(fired))),
            "exc:" + (type(exc).__name__ if exc is not None else "-"),
        ]
    )
    return {
        "signature": sig,
        "nontrivial": bool((nconv >= 1 and disp > 0) or fired),
        "faults_fired": fired,
        "sim": {"substeps_converged": nconv, "newton_calls": len(eng.history), "iterations": sum(len(c["its"]) for c in eng.history), "solver_calls": eng.solver_calls, "clock_reads": eng.clock.calls},
        "job_exc": None if exc is None else type(exc).__name__,
    }


def shrink(doc):
    """Candidate simplifications, most aggressive first."""
    out = []

    def cand(f):
        d = copy.deepcopy(doc)
        try:
            if f(d) is not False:
                out.append(d)
        except Exception:
            pass

    for i in range(len(doc.get("faults", []))):
        cand(lambda d, i=i: d["faults"].pop(i))
    if len(doc["steps"]) > 1:
        cand(lambda d: d["steps"].pop())
    for j, s in enumerate(doc["steps"]):
        n = len(s["ramp"][0]["values"])
        if n > 1:

            def trunc(d, j=j, n=n):
                for r in d["steps"][j]["ramp"]:
                    r["values"] = r["values"][: n - 1]

            cand(trunc)
    for k in range(len(doc["items"]) - 1, 0, -1):

        def drop(d, k=k):
            for s in d["steps"]:
                for r in s["ramp"]:
                    if r["target"] == f"item:{k}":
                        return False
                    if r["target"].startswith("item:") and int(r["target"][5:]) > k:
                        return False
            for s in d["steps"]:
                s["ramp"] = [r for r in s["ramp"] if r["target"] != f"item:{k}"]
            d["items"].pop(k)

        def drop2(d, k=k):
            for s in d["steps"]:
                s["ramp"] = [r for r in s["ramp"] if r["target"] != f"item:{k}"]
                for r in s["ramp"]:
                    if r["target"].startswith("item:") and int(r["target"][5:]) > k:
                        r["target"] = f"item:{int(r['target'][5:]) - 1}"
            d["items"].pop(k)

        cand(drop2)
    if doc["mesh"].get("perturb"):
        cand(lambda d: d["mesh"].pop("perturb"))
    if doc["mesh"].get("convert"):
        cand(lambda d: d["mesh"].pop("convert"))
    if any(x > 2 for x in doc["mesh"].get("n", [])):
        cand(lambda d: d["mesh"].update(n=[2] * len(d["mesh"]["n"])))
    if doc["mesh"].get("b") and any(x != 1.0 for x in doc["mesh"]["b"]):
        cand(lambda d: d["mesh"].update(b=[1.0] * len(d["mesh"]["b"])))
    if doc.get("newton"):
        cand(lambda d: d.update(newton={}))
    if doc.get("knobs", {}).get("verbose"):
        cand(lambda d: d["knobs"].update(verbose=False))
    if doc.get("knobs", {}).get("clock") != "normal":
        cand(lambda d: d["knobs"].update(clock="normal"))
    if doc.get("c07", {}).get("clock_twin"):
        cand(lambda d: d["c07"].update(clock_twin=False))
    if doc.get("c07", {}).get("x0"):
        cand(lambda d: d["c07"].update(x0=False))
    return out
