"""C17 - batched tensor algebra equals its definition; flag variants agree; inputs unchanged.

Simulated: seeded operation sequences over a pool of arrays: routine r with operands from
the pool, `out` in {None, fresh, a dirty buffer last used by another routine}, `parallel` in
{False, True} under SimPool (size knob, job order, failing job), mode tuples, sym /
determinant shortcuts. The history matters because result buffers of earlier operations are
handed back as `out=` of later ones.
"""
import copy

import numpy as np

import felupe as fem
from felupe import math as fm

from .. import gen
from ..apicall import call as api
from ..kernel import Discard, SimWorkerError, Streams, Violation, adigest, close_exact_twin
from ..sched import SimPool

PROP = "C17"

EVIDENCE = {
    "rule": "one evaluation = one seeded operation sequence (12..40 tensor operations on a shared array pool under one simulated einsumt pool configuration); non-trivial = the sequence contains at least one threaded evaluation that was actually chunked into > 1 pool job or one reused dirty output buffer; distinct = distinct (sequence of routine names and variants, pool configuration)",
    "probes_expected": ["variant:out-dirty", "variant:out-fresh", "variant:parallel", "pool:njobs>1", "fault:pool_job", "broadcast-operand", "variant:sym", "variant:determinant"],
    "clauses_sampled_only": ["'returns the value given by its definition' for the plain variant is a pure function of its input; it is the reference the flag variants are compared with and is itself compared with numpy.linalg per batch item - sampling of inputs only"],
    "components": {
        "real": ["felupe.math (all routines)", "einsumt chunking logic", "numpy"],
        "simulated": ["einsumt thread pool (size knob, seeded job order, failing job)", "buffer reuse history"],
    },
}

ROUTINES = [
    "det", "inv", "cof", "dev", "sym", "trace", "dya2", "dya1", "cdya_ik", "cdya_il", "cdya", "dot", "ddot", "dddot", "transpose1", "transpose2",
    "cross", "eigh", "eigvalsh", "eig", "eigvals", "tovoigt", "von_mises", "inplane", "solve_nd", "solve_2d", "rotation", "strain1d", "strain", "linsteps", "identity",
]
DOT_MODES = [(2, 2), (1, 1), (4, 4), (2, 1), (1, 2), (2, 3), (3, 2), (4, 1), (1, 4), (2, 4), (4, 2)]
DDOT_MODES = [(2, 2), (2, 4), (4, 2), (2, 3), (3, 2), (4, 4)]


def generate(seed, tier, k):
    r = Streams(seed)["gen"]
    n = r.choice([12, 20, 30, 40])
    ops = []
    for _ in range(n):
        name = r.choice(ROUTINES)
        op = {"r": name, "dim": r.choice([1, 2, 3, 3]), "seed": r.randrange(1 << 30), "out": r.choice([None, None, "fresh", "dirty", "dirty", "strided", "fortran"]), "parallel": r.random() < 0.5, "bcast": r.choice([None, None, "A", "B", "c"])}
        if r.random() < 0.3:
            op["mag"] = r.choice([1e-12, 1e-9, 1e-6, 1e6, 1e9])
        if name == "dot":
            op["mode"] = list(r.choice(DOT_MODES))
        if name == "ddot":
            op["mode"] = list(r.choice(DDOT_MODES))
        if name in ("inv", "cof"):
            op["symflag"] = r.random() < 0.4
            op["determinant"] = r.random() < 0.3
            op["full_output"] = r.random() < 0.3
        if name in ("eigvals", "eigvalsh"):
            op["shear"] = r.random() < 0.4
        if name in ("eig", "eigvals"):
            op["nonsym"] = r.random() < 0.4
        if name == "tovoigt":
            op["strain"] = r.random() < 0.5
        if name == "rotation":
            op["angle"] = round(r.uniform(-180, 180), 3)
            if r.random() < 0.5:  # angles that repeat within a history
                op["angle"] = r.choice([0, 30, 45, 90, -90, 180, 30.0, 45.0])
            op["axis"] = r.randrange(3)
        if name == "strain1d":
            op["k"] = r.choice([0, 1, 2, -2, 0.5])
        if name == "strain":
            op["k"] = r.choice([None, 0, 1, 2, -2, 0.5])
            op["tensor"] = r.random() < 0.5
            op["asvoigt"] = r.random() < 0.4
            op["via"] = r.choice(["C", "C", "field", "evaluate"])
        if name == "linsteps":
            op["points"] = [round(r.uniform(-1, 1), 3) for _ in range(r.choice([1, 2, 3, 4]))]
            op["num"] = r.choice([1, 2, 5, [2, 3], [1, 4, 2]])
            op["endpoint"] = r.random() < 0.7
            op["axis"] = r.choice([None, 0, 1])
            op["axes"] = r.choice([2, 2, 3, None])
            if op["axes"] is None and op["axis"] is None:
                op["axes"] = 2
            ncol_ = op["axes"] if op["axes"] is not None else (op["axis"] or 0) + 1
            op["values"] = r.choice([0.25, 0.0, [round(r.uniform(-1, 1), 2) for _ in range(ncol_)], 1, -2, [r.choice([-1, 0, 2]) for _ in range(ncol_)], {"np": "int64", "v": 3}, {"np": "intarray", "v": [r.choice([-1, 0, 2]) for _ in range(ncol_)]}])
        ops.append(op)
    doc = {
        "kind": "c17",
        "seed": seed,
        "batch": [r.choice([1, 2, 3, 4, 8]), r.choice([1, 2, 3, 5, 9])],
        "pool": {"n": r.choice([1, 2, 3, 4, 5, 7, 8, 16, 33]), "order": r.choice(["shuffle", "shuffle", "lazy", "reverse", "fifo"]), "seed": r.randrange(1 << 30)},
        "ops": ops,
    }
    if r.random() < 0.2:
        doc["pool"]["fail"] = r.randrange(0, 30)
    return doc


# ----------------------------------------------------------------------------------------
def items(A, nt):
    """Move the nt tensor axes last and iterate over the batch."""
    return np.moveaxis(A, tuple(range(nt)), tuple(range(-nt, 0)))


MAG = [1.0]  # magnitude of the operands of the current operation (set per operation)


def tensor(rng, shape, batch, bcast=False, spd=False, near_identity=False, symmetric=False):
    A = _tensor(rng, shape, batch, bcast, spd, near_identity, symmetric)
    # tensors far from order one (other unit systems)
    return A * MAG[0]


def _tensor(rng, shape, batch, bcast=False, spd=False, near_identity=False, symmetric=False):
    tb = tuple(batch)
    if bcast == "all":
        tb = (1, 1)
    elif bcast == "c":
        tb = (batch[0], 1)
    A = rng.normal(size=tuple(shape) + tb)
    if len(shape) == 2 and shape[0] == shape[1]:
        if symmetric or spd:
            A = 0.5 * (A + A.transpose(1, 0, 2, 3))
        if near_identity or spd:
            A = 0.3 * A
            for i in range(shape[0]):
                A[i, i] += 1.0
    return A


class Machine:
    def __init__(self, doc, log):
        self.doc = doc
        self.log = log
        self.batch = doc["batch"]
        self.dirty = {}  # shape -> array (result buffers of earlier operations)
        self.nvariants = 0
        self.sigs = []

    def V(self, monitor, detail, site):
        raise Violation(PROP, monitor, detail, site=site)

    def out_for(self, op, shape, routine):
        mode = op.get("out")
        if mode is None:
            return None
        if mode == "dirty" and tuple(shape) in self.dirty:
            self.log.count("variant:out-dirty")
            buf = self.dirty[tuple(shape)]
            return buf
        if mode == "strided" and len(shape) >= 1 and shape[-1] >= 1:
            # a correctly shaped slice of a larger workspace (not contiguous)
            self.log.count("variant:out-noncontiguous")
            work = np.full(tuple(shape[:-1]) + (2 * shape[-1] + 1,), -3.5)
            return work[..., 1 : 1 + 2 * shape[-1] : 2]
        if mode == "fortran":
            self.log.count("variant:out-noncontiguous")
            return np.full(shape, -3.5, order="F")
        self.log.count("variant:out-fresh")
        return np.full(shape, 7.5)

    def remember(self, arr):
        if isinstance(arr, np.ndarray) and arr.flags.writeable and arr.flags.owndata and arr.dtype == float:
            self.dirty[arr.shape] = arr

    def check_same(self, name, variant, got, plain, site):
        ok, rel = close_exact_twin(got, plain, rtol=1e-12, atol=1e-13 * (float(np.abs(plain).max()) if np.size(plain) else 0.0) + 1e-300)
        if not ok:
            self.V("flag-variant", f"{name}: variant {variant} differs from the plain call (rel {rel:.2e})", site=f"{name}[{variant}]")
        self.nvariants += 1

    def check_ref(self, name, got, ref, site, rtol=1e-10, scale=None):
        # tolerances relative to the magnitude of the result (operands come in all magnitudes); a
        # reference of zeros needs the natural scale of the quantity from the caller
        base = float(np.abs(ref).max()) if np.size(ref) else 0.0
        if scale is None and base == 0.0:
            scale = 1.0
        ok, rel = close_exact_twin(np.asarray(got), np.asarray(ref), rtol=rtol, atol=1e-11 * (base + (scale or 0.0)) + 1e-300)
        if not ok:
            self.V("definition", f"{name}: value differs from the definition (rel {rel:.2e}, shapes {np.shape(got)} vs {np.shape(ref)})", site=site)

    def refilled_operands(self, name, call, operands, plain):
        """The caller re-uses its operand arrays: the same array objects get new contents in place (here:
        the batch items in reverse order) and the routine is called again - every routine acts item by
        item, so the result is the earlier one with its items in reverse order. A routine that remembers
        something about an operand *object* (not its content) returns the old values."""
        arrs = [a for a in operands if isinstance(a, np.ndarray)]
        if len(arrs) != len(operands) or not arrs:
            return
        if not all(a.flags.writeable and a.ndim >= 1 and a.dtype.kind == "f" for a in arrs):
            return
        uniq = []
        for a in arrs:
            if any(a is u for u in uniq):
                continue
            if any(np.shares_memory(a, u) for u in uniq):
                return  # overlapping views: an in-place refill of one changes the other
            uniq.append(a)
        full = tuple(self.batch)
        nb = len(full)
        n = full[-1]
        # operands and result carry the batch axes of this machine last (size-one axes broadcast)
        if n < 2 or any(a.ndim < nb or any(s_ not in (1, f_) for s_, f_ in zip(a.shape[-nb:], full)) for a in uniq):
            return
        if not any(a.shape[-1] == n for a in uniq):
            return
        first = plain[0] if isinstance(plain, (list, tuple)) else plain
        if not isinstance(first, np.ndarray) or first.ndim < nb or tuple(first.shape[-nb:]) != full:
            return

        def flipped(x):
            if isinstance(x, (list, tuple)):
                return [flipped(v) for v in x]
            if isinstance(x, np.ndarray) and x.ndim >= 1 and x.shape[-1] == n:
                return x[..., ::-1]
            return None

        want = flipped(plain)
        if want is None or (isinstance(want, list) and any(v is None for v in want)):
            return
        want = [np.array(v, copy=True) for v in want] if isinstance(want, list) else np.array(want, copy=True)
        for a in uniq:
            if a.shape[-1] == n:
                a[...] = a[..., ::-1].copy()
        try:
            got = call(out=None, parallel=False)
            # (a result may be a view of an operand: taken before the operands are restored)
            got = [np.array(v, copy=True) for v in got] if isinstance(got, (list, tuple)) else np.array(got, copy=True)
        finally:
            for a in uniq:
                if a.shape[-1] == n:
                    a[...] = a[..., ::-1].copy()
        pairs = list(zip(got, want)) if isinstance(want, list) else [(got, want)]
        for g_, w_ in pairs:
            ok, rel = close_exact_twin(np.asarray(g_), w_, rtol=1e-12, atol=1e-13 * (float(np.abs(w_).max()) if np.size(w_) else 0.0) + 1e-300)
            if not ok:
                self.V("call-history", f"{name}: called again after the caller refilled the same operand arrays in place (batch items reversed), the result is not the earlier one with its items reversed (rel {rel:.2e})", site=f"{name}.operand-refilled")
        self.log.count("variant:operands-refilled-in-place")

    def unchanged(self, name, operands, digests, variant):
        for k, (a, d) in enumerate(zip(operands, digests)):
            if adigest(a) != d:
                self.V("inputs-unchanged", f"{name}[{variant}] modified its operand {k}", site=f"{name}.operand{k}")

    # -- one operation ---------------------------------------------------------------------
    def step(self, op, pool):
        name = op["r"]
        MAG[0] = float(op.get("mag", 1.0))
        d = op["dim"]
        rng = np.random.default_rng(op["seed"])
        b = self.batch
        bc = op.get("bcast")
        bcA = "all" if bc == "A" else ("c" if bc == "c" else False)
        bcB = "all" if bc == "B" else False
        if bc:
            self.log.count("broadcast-operand")
        par = bool(op.get("parallel"))
        full = tuple(b)

        def run_variants(call, operands, ref, nt_out, supports_out=True, supports_par=False, kw_plain=None, rtol=1e-10, out_shape=None):
            """plain call vs reference; then out / parallel variants vs plain; operands unchanged"""
            digs = [adigest(a) for a in operands]
            plain = call(out=None, parallel=False)
            self.unchanged(name, operands, digs, "plain")
            if ref is not None:
                self.check_ref(name, plain, ref, site=name, rtol=rtol)
            variants = []
            if supports_out and op.get("out"):
                variants.append(("out", False))
            if supports_par and par:
                variants.append((None, True))
                if supports_out and op.get("out"):
                    variants.append(("out", True))
            for o, p in variants:
                shape = np.shape(plain) if out_shape is None else out_shape
                buf = self.out_for(op, shape, name) if o else None
                if p:
                    self.log.count("variant:parallel")
                before = pool.njobs
                try:
                    got = call(out=buf, parallel=p)
                except SimWorkerError:
                    self.log.count("fault:pool_job")
                    self.fired = True
                    continue
                if pool.fired and not getattr(self, "fired", False) and p:
                    # a job failed inside this call but the call returned
                    self.V("worker-fault", f"{name}: a pool job failed but the call returned normally", site=f"{name}.parallel")
                if p and pool.njobs - before > 1:
                    self.log.count("pool:njobs>1")
                    self.chunked = True
                self.check_same(name, f"out={o},parallel={p}", got, plain, name)
                self.unchanged(name, operands, digs, f"out={o},parallel={p}")
                if buf is not None and not p:
                    # serial variants write the result into the given buffer
                    ok, rel = close_exact_twin(buf, plain, rtol=1e-12, atol=1e-13)
                    if not ok:
                        self.log.count("probe:out-buffer-not-filled")
                self.remember(got if isinstance(got, np.ndarray) else None)
            self.remember(plain if isinstance(plain, np.ndarray) else None)
            self.refilled_operands(name, call, operands, plain)
            self.sigs.append(f"{name}:{op.get('out')}:{int(par)}:{op.get('mode')}")
            if op["seed"] % 3 == 0 and isinstance(plain, np.ndarray) and plain.flags.writeable and plain.dtype == float and not any(np.shares_memory(plain, a) for a in operands):
                # a returned array is the caller's: overwriting it must not change what the next
                # (identical) call returns
                keep = plain.copy()
                plain[...] = -123.456
                again = call(out=None, parallel=False)
                self.log.count("variant:result-scribbled")
                ok, rel = close_exact_twin(np.asarray(again), keep, rtol=1e-12, atol=1e-13 * (float(np.abs(keep).max()) if keep.size else 0.0) + 1e-300)
                if not ok:
                    self.V("call-history", f"{name}: the same call returns different values after the caller overwrote the earlier result (rel {rel:.2e})", site=f"{name}.result-aliasing")
                self.unchanged(name, operands, digs, "repeat")
                return again
            return plain

        T = lambda A, nt: items(np.broadcast_to(A, A.shape[:nt] + full), nt)

        if name == "det":
            A = tensor(rng, (d, d), b, bcA)
            ref = np.linalg.det(T(A, 2))
            run_variants(lambda out, parallel: fm.det(A, out=out), [A], np.broadcast_to(ref, ref.shape) if not bcA else np.linalg.det(items(A, 2)), 0)
        elif name in ("inv", "cof"):
            symf = bool(op.get("symflag"))
            A = tensor(rng, (d, d), b, bcA, near_identity=True, symmetric=symf)
            Ai = items(A, 2)
            if name == "inv":
                ref = np.moveaxis(np.linalg.inv(Ai), (-2, -1), (0, 1))
            else:
                ref = np.moveaxis(np.linalg.det(Ai)[..., None, None] * np.swapaxes(np.linalg.inv(Ai), -1, -2), (-2, -1), (0, 1))
            f = fm.inv if name == "inv" else fm.cof
            plain = run_variants(lambda out, parallel: f(A, out=out), [A], ref, 2, rtol=1e-9)
            digs = [adigest(A)]
            if symf:
                self.log.count("variant:sym")
                got = f(A, sym=True)
                self.check_same(name, "sym=True", got, plain, name)
                got = f(A, sym=True, out=self.out_for(dict(op, out=op.get("out") or "fresh"), plain.shape, name))
                self.check_same(name, "sym=True,out", got, plain, name)
            if name == "inv" and op.get("determinant"):
                self.log.count("variant:determinant")
                detA = fm.det(A)
                dd = adigest(detA)
                got = api("math.inv", fm.inv, op["seed"], A, determinant=detA)
                self.check_same(name, "determinant=", got, plain, name)
                if adigest(detA) != dd:
                    self.V("inputs-unchanged", "inv modified the supplied determinant", site="inv.determinant")
            if name == "inv" and op.get("full_output"):
                got, dt = api("math.inv", fm.inv, op["seed"], A, full_output=True)
                self.check_same(name, "full_output", got, plain, name)
                self.check_ref("inv.det", dt, np.linalg.det(Ai), site="inv.full_output")
            self.unchanged(name, [A], digs, "flags")
        elif name == "dev":
            A = tensor(rng, (d, d), b, bcA)
            Ai = items(A, 2)
            ref = np.moveaxis(Ai - (np.trace(Ai, axis1=-2, axis2=-1) / d)[..., None, None] * np.eye(d), (-2, -1), (0, 1))
            run_variants(lambda out, parallel: fm.dev(A, out=out), [A], ref, 2)
        elif name == "sym":
            A = tensor(rng, (d, d), b, bcA)
            ref = 0.5 * (A + A.transpose(1, 0, 2, 3))
            run_variants(lambda out, parallel: fm.sym(A, out=out), [A], ref, 2)
        elif name == "trace":
            A = tensor(rng, (d, d), b, bcA)
            ref = sum(A[i, i] for i in range(d))
            run_variants(lambda out, parallel: fm.trace(A, out=out), [A], ref, 0)
        elif name in ("dya2", "dya1"):
            if name == "dya2":
                A = tensor(rng, (d, d), b, bcA)
                B = tensor(rng, (d, d), b, bcB)
                ref = np.einsum("ij...,kl...->ijkl...", A, B)
                mode = 2
            else:
                A = tensor(rng, (d,), b, bcA)
                B = tensor(rng, (d,), b, bcB)
                ref = np.einsum("i...,j...->ij...", A, B)
                mode = 1
            run_variants(lambda out, parallel: api("math.dya", fm.dya, op["seed"], A, B, mode=mode, parallel=parallel, **({"out": out} if out is not None else {})), [A, B], ref, 4, supports_par=True)
        elif name in ("cdya_ik", "cdya_il", "cdya"):
            A = tensor(rng, (d, d), b, bcA)
            B = tensor(rng, (d, d), b, bcB)
            ik = np.einsum("ij...,kl...->ikjl...", A, B)
            il = np.einsum("ij...,kl...->ilkj...", A, B)
            ref = {"cdya_ik": ik, "cdya_il": il, "cdya": 0.5 * (ik + il)}[name]
            f = getattr(fm, name)
            run_variants(lambda out, parallel: api("math." + name, f, op["seed"], A, B, parallel=parallel, **({"out": out} if out is not None else {})), [A, B], ref, 4, supports_par=True)
        elif name in ("dot", "ddot", "dddot"):
            mode = tuple(op.get("mode", (3, 3)))
            if name == "dddot":
                mode = (3, 3)
            A = tensor(rng, (d,) * mode[0], b, bcA)
            B = tensor(rng, (d,) * mode[1], b, bcB)
            la = "ijklmn"[: mode[0]]
            if name == "dot":
                lb = la[-1] + "pqrs"[: mode[1] - 1]
                lo = la[:-1] + lb[1:]
            elif name == "ddot":
                lb = la[-2:] + "pqrs"[: mode[1] - 2]
                lo = la[:-2] + lb[2:]
            else:
                lb = la
                lo = ""
            # definition by explicit loops over the contracted indices per batch item
            ref = np.einsum(f"{la}...,{lb}...->{lo}...", A, B)
            f = getattr(fm, name)
            run_variants(lambda out, parallel: api("math." + name, f, op["seed"], A, B, mode=mode, parallel=parallel, **({"out": out} if out is not None else {})), [A, B], ref, len(lo), supports_par=True)
        elif name in ("transpose1", "transpose2"):
            if name == "transpose1":
                A = tensor(rng, (d, d), b, bcA)
                ref = A.transpose(1, 0, 2, 3)
                run_variants(lambda out, parallel: fm.transpose(A, mode=1, **({"out": out} if out is not None else {})), [A], ref, 2)
            else:
                A = tensor(rng, (d, d, d, d), b, bcA)
                ref = A.transpose(2, 3, 0, 1, 4, 5)
                run_variants(lambda out, parallel: fm.majortranspose(A) if out is None else fm.transpose(A, mode=2, out=out), [A], ref, 4)
        elif name == "cross":
            A = tensor(rng, (3,), b, bcA)
            B = tensor(rng, (3,), b, bcB)
            Af, Bf = np.broadcast_to(A, (3,) + full), np.broadcast_to(B, (3,) + full)
            ref = np.array([Af[1] * Bf[2] - Af[2] * Bf[1], Af[2] * Bf[0] - Af[0] * Bf[2], Af[0] * Bf[1] - Af[1] * Bf[0]])
            run_variants(lambda out, parallel: fm.cross(A, B), [A, B], ref, 1, supports_out=False)
        elif name in ("eig", "eigvals") and op.get("nonsym"):
            A = tensor(rng, (d, d), b, False)
            dg = adigest(A)
            wref = np.sort_complex(np.linalg.eigvals(items(A, 2)))
            if name == "eig":
                res = fm.eig(A)
                vals, vecs = res.eigenvalues, res.eigenvectors
                # A v = lambda v per batch item
                Av = np.einsum("ij...,ja...->ia...", A, vecs)
                lv = vecs * vals[None]
                self.check_ref(name, np.abs(Av - lv), np.zeros(Av.shape), site="eig.nonsymmetric.pairs", rtol=1e-9, scale=1e2 * float(np.abs(A).max()) * float(np.abs(vecs).max()))
                got = np.sort_complex(items(vals, 1))
            else:
                got = np.sort_complex(items(fm.eigvals(A), 1))
            if np.abs(got - wref).max() > 1e-9 * (1 + np.abs(wref).max()):
                self.V("definition", f"{name}: eigenvalues of a non-symmetric tensor differ from numpy.linalg per batch item by {np.abs(got - wref).max():.2e}", site=name + ".nonsymmetric")
            self.unchanged(name, [A], [dg], "plain")
            self.sigs.append(name + "-nonsym")
        elif name in ("eigh", "eigvalsh", "eig", "eigvals"):
            A = tensor(rng, (d, d), b, False, symmetric=True)
            Ai = items(A, 2)
            w = np.linalg.eigvalsh(Ai)
            if name == "eigh" or name == "eig":
                res = fm.eigh(A) if name == "eigh" else fm.eig(A)
                dg = adigest(A)
                vals, vecs = res.eigenvalues, res.eigenvectors
                # reconstruction and sorted spectrum, never eigenvector signs
                rec = np.einsum("ia...,a...,ja...->ij...", vecs, vals, vecs)
                self.check_ref(name, np.real(rec), A, site=name + ".reconstruction", rtol=1e-9)
                self.check_ref(name, np.sort(np.real(items(vals, 1)), axis=-1), w, site=name + ".spectrum", rtol=1e-9)
                self.unchanged(name, [A], [dg], "plain")
            else:
                shear = bool(op.get("shear")) and d > 1
                got = (fm.eigvalsh if name == "eigvalsh" else fm.eigvals)(A, shear=shear)
                got = np.real(got)
                if name == "eigvalsh":
                    self.check_ref(name, items(got[:d], 1), w, site=name, rtol=1e-9)
                    if shear and d > 1:
                        ij = [(1, 0), (2, 0), (2, 1)] if d == 3 else [(1, 0)]
                        ref = np.array([got[i] - got[j] for i, j in ij])
                        self.check_ref(name, got[d:], ref, site=name + ".shear")
                else:
                    self.check_ref(name, np.sort(items(got[:d], 1), axis=-1), w, site=name, rtol=1e-9)
            self.sigs.append(name)
        elif name == "tovoigt":
            dd = max(d, 2)
            A = tensor(rng, (dd, dd), b, bcA, symmetric=True)
            st = bool(op.get("strain"))
            ij = [(0, 0), (1, 1), (2, 2), (0, 1), (1, 2), (0, 2)] if dd == 3 else [(0, 0), (1, 1), (0, 1)]
            ref = np.array([A[i, j] * (2.0 if (st and i != j) else 1.0) for i, j in ij])
            run_variants(lambda out, parallel: api("math.tovoigt", fm.tovoigt, op["seed"], A, strain=st), [A], ref, 1, supports_out=False)
        elif name == "von_mises":
            dd = max(d, 2)
            A = tensor(rng, (dd, dd), b, bcA, symmetric=True)
            vm_rtol = 1e-10
            if dd == 3 and op["seed"] % 3 == 0:
                # stress of a nearly-incompressible solid under confinement: a hydrostatic part seven
                # orders above the deviatoric one (the stored numbers carry the deviator to 1e-9 only,
                # hence the wider tolerance)
                A = A + 1e7 * MAG[0] * np.eye(3).reshape(3, 3, *([1] * (A.ndim - 2)))
                vm_rtol = 1e-6
                self.log.count("hydrostatic-dominated-operand")
            Ai = items(A, 2)
            P = np.zeros(Ai.shape[:-2] + (3, 3))
            P[..., :dd, :dd] = Ai
            dv = P - (np.trace(P, axis1=-2, axis2=-1) / 3)[..., None, None] * np.eye(3)
            ref = np.sqrt(1.5 * np.einsum("...ij,...ij->...", dv, dv))
            run_variants(lambda out, parallel: fm.equivalent_von_mises(A), [A], ref, 0, supports_out=False, rtol=vm_rtol)
        elif name == "inplane":
            A = tensor(rng, (3, 3), b, bcA)
            v1 = tensor(rng, (3,), b, False)
            v2 = tensor(rng, (3,), b, False)
            ref = np.einsum("ij...,ai...,bj...->ab...", A, np.array([v1, v2]), np.array([v1, v2]))
            run_variants(lambda out, parallel: fm.inplane(A, [v1, v2]), [A, v1, v2], ref, 2, supports_out=False)
        elif name in ("solve_nd", "solve_2d"):
            # partial broadcasting (one size-one trailing axis) is not supported by solve_nd
            # (ValueError, nothing returned); only full-size and all-singleton batches are used
            bcA = "all" if bc == "A" else False
            if name == "solve_nd":
                A = tensor(rng, (d, d), b, bcA, near_identity=True)
                rhs = tensor(rng, (d,), b, bcB)
                Af = np.broadcast_to(A, (d, d) + full)
                bf = np.broadcast_to(rhs, (d,) + full)
                ref = np.moveaxis(np.linalg.solve(items(Af, 2), items(bf, 1)[..., None])[..., 0], -1, 0)
                run_variants(lambda out, parallel: fm.solve_nd(A, rhs), [A, rhs], ref, 1, supports_out=False, rtol=1e-9)
            else:
                A4 = tensor(rng, (d, d, d, d), b, bcA)
                A4 = 0.2 * A4
                for i in range(d):
                    for j in range(d):
                        A4[i, j, i, j] += 1.0
                rhs = tensor(rng, (d, d), b, bcB)
                Af = np.broadcast_to(A4, (d, d, d, d) + full)
                bf = np.broadcast_to(rhs, (d, d) + full)
                M = items(Af, 4).reshape(full + (d * d, d * d))
                v = items(bf, 2).reshape(full + (d * d, 1))
                x = np.linalg.solve(M, v)[..., 0].reshape(full + (d, d))
                ref = np.moveaxis(x, (-2, -1), (0, 1))
                run_variants(lambda out, parallel: fm.solve_2d(A4, rhs), [A4, rhs], ref, 2, supports_out=False, rtol=1e-9)
        elif name == "rotation":
            a = np.deg2rad(op["angle"])
            ax = op["axis"]
            dim = 3 if d >= 2 else 2
            R = api("math.rotation_matrix", fm.rotation_matrix, op["seed"], op["angle"], dim=dim, axis=ax if dim == 3 else 0)
            if dim == 2:
                ref = np.array([[np.cos(a), -np.sin(a)], [np.sin(a), np.cos(a)]])
            else:
                # Rodrigues: rotation about unit vector e_ax by angle a (right-handed)
                e = np.eye(3)[ax]
                Kx = np.array([[0, -e[2], e[1]], [e[2], 0, -e[0]], [-e[1], e[0], 0]])
                ref = np.eye(3) + np.sin(a) * Kx + (1 - np.cos(a)) * Kx @ Kx
            self.check_ref(name, R, ref, site=f"rotation_matrix[dim={dim},axis={ax}]")
            # the returned matrix is the caller's (scaled / mirrored in place by callers); later
            # calls with the same angle still return the rotation
            if R.flags.writeable:
                R *= -2.5
                self.log.count("variant:result-scribbled")
            for dim2 in (dim, 5 - dim):
                R2 = fm.rotation_matrix(op["angle"], dim=dim2, axis=ax if dim2 == 3 else 0)
                c, s_ = np.cos(a), np.sin(a)
                if dim2 == 2:
                    ref2 = np.array([[c, -s_], [s_, c]])
                else:
                    e = np.eye(3)[ax]
                    Kx = np.array([[0, -e[2], e[1]], [e[2], 0, -e[0]], [-e[1], e[0], 0]])
                    ref2 = np.eye(3) + s_ * Kx + (1 - c) * Kx @ Kx
                ok, rel = close_exact_twin(R2, ref2, rtol=1e-10, atol=1e-11)
                if not ok:
                    self.V("call-history", f"rotation_matrix({op['angle']}, dim={dim2}) differs from the definition after an earlier result was modified in place (rel {rel:.2e})", site=f"rotation_matrix.result-aliasing")
            self.sigs.append(name)
        elif name == "strain1d":
            lam = np.abs(tensor(rng, (d,), b, bcA)) + 0.3
            k = op["k"]
            ref = np.log(lam) if k == 0 else (lam**k - 1) / k
            dg = adigest(lam)
            got = api("math.strain_stretch_1d", fm.strain_stretch_1d, op["seed"], lam, k=k)
            self.check_ref(name, got, ref, site="strain_stretch_1d")
            self.unchanged(name, [lam], [dg], "plain")
            self.sigs.append(name)
        elif name == "strain":
            dd = max(d, 2)
            k_ = op["k"]
            kw = {} if k_ is None else {"k": k_}
            f1 = (lambda lam: np.log(lam)) if not k_ else (lambda lam: (lam**k_ - 1) / k_)
            via = op.get("via", "C")
            if via == "C":
                Fd = tensor(rng, (dd, dd), b, bcA, near_identity=True)
                Cc = np.einsum("ki...,kj...->ij...", Fd, Fd)
                dg = adigest(Cc)
                got = api("math.strain", fm.strain, op["seed"], None, C=Cc, tensor=op["tensor"], asvoigt=op["asvoigt"], **kw)
                self.unchanged(name, [Cc], [dg], "plain")
                if Cc.flags.writeable and isinstance(got, np.ndarray):
                    self.refilled_operands(name, lambda out, parallel: fm.strain(None, C=Cc, tensor=op["tensor"], asvoigt=op["asvoigt"], **kw), [Cc], np.array(got, copy=True))
            else:
                import felupe as fem

                mesh = fem.Cube(n=2) if dd == 3 else fem.Rectangle(n=2)
                region = fem.RegionHexahedron(mesh) if dd == 3 else fem.RegionQuad(mesh)
                fld = fem.FieldContainer([fem.Field(region, dim=dd, values=0.2 * rng.normal(size=(mesh.npoints, dd)) * 0.3)])
                Fd = fld.extract()[0]
                Cc = np.einsum("ki...,kj...->ij...", Fd, Fd)
                if via == "field":
                    got = fm.strain(fld, tensor=op["tensor"], asvoigt=op["asvoigt"], **kw)
                elif k_ in (None, 0):
                    got = fld.evaluate.log_strain(tensor=op["tensor"], asvoigt=op["asvoigt"])
                elif k_ == 2:
                    got = fld.evaluate.green_lagrange_strain(tensor=op["tensor"], asvoigt=op["asvoigt"])
                else:
                    got = fld.evaluate.strain(tensor=op["tensor"], asvoigt=op["asvoigt"], **kw)
            Ci = items(np.broadcast_to(Cc, Cc.shape[:2] + np.broadcast_shapes(Cc.shape[2:])), 2)
            wv, Nv = np.linalg.eigh(Ci)
            Ev = f1(np.sqrt(wv))
            if not op["tensor"]:
                ref = np.moveaxis(Ev, -1, 0)
            else:
                E = np.einsum("...a,...ia,...ja->...ij", Ev, Nv, Nv)
                ref = np.moveaxis(E, (-2, -1), (0, 1))
                if op["asvoigt"]:
                    idx = [(0, 0), (1, 1), (0, 1)] if dd == 2 else [(0, 0), (1, 1), (2, 2), (0, 1), (1, 2), (0, 2)]
                    ref = np.array([ref[i, j] * (1.0 if i == j else 2.0) for i, j in idx])
            # conditioning: the eigenvalues w of C are known to about 1e-16 max|w|; a strain measure
            # f(w) = (w^(k/2) - 1) / k (log for k = 0) turns that into 1e-16 max|w| |f'(w)| with
            # f'(w) = w^(k/2 - 1) / 2 - large for a nearly singular C and negative k, and an absolute floor
            # for nearly undeformed states where the strain itself is tiny
            with np.errstate(all="ignore"):
                wa = np.abs(wv)
                cond = float(np.nanmax(wa)) * float(np.nanmax(0.5 * wa ** ((k_ or 0) / 2.0 - 1.0))) if np.size(wv) else 1.0
            cond = cond if np.isfinite(cond) else 1e300
            self.check_ref(name, got, ref, site=f"strain[tensor={op['tensor']},asvoigt={op['asvoigt'] and op['tensor']},k={k_},via={via}]", rtol=1e-9, scale=1e-3 * max(1.0, cond))
            self.sigs.append(f"strain:{op['tensor']}:{op['asvoigt']}:{k_}:{via}")
        elif name == "linsteps":
            pts, num, endpoint = op["points"], op["num"], op["endpoint"]
            ax_n = op.get("axes", 2)
            vals_ = op.get("values", 0.25)
            if isinstance(vals_, dict):  # numpy integer scalar / integer array
                vals_ = np.int64(vals_["v"]) if vals_["np"] == "int64" else np.asarray(vals_["v"], dtype=int)
            got = api("math.linsteps", fm.linsteps, op["seed"], pts, num=num, endpoint=endpoint, axis=op["axis"], axes=None if op["axis"] is None else ax_n, values=vals_)
            nums = list(np.array([num]).ravel())
            segs = max(len(pts) - 1, 0)
            if len(nums) == 1:
                nums = nums * max(1, segs)
            while len(nums) < segs:
                nums.append(nums[-1])
            ref = []
            for s in range(segs):
                a_, b_ = pts[s], pts[s + 1]
                ref += [a_ + (b_ - a_) * t / nums[s] for t in range(nums[s])]
            if endpoint:
                ref.append(pts[-1])
            ref = np.array(ref, dtype=float)
            if op["axis"] is not None:
                ncol = ax_n if ax_n is not None else op["axis"] + 1
                full_ = np.ones((len(ref), ncol)) * np.atleast_2d(vals_)
                full_[:, op["axis"]] = ref
                ref = full_
            self.check_ref(name, got, ref, site="linsteps")
            self.sigs.append(name)
        elif name == "identity":
            A = tensor(rng, (d, d), b, bcA)
            I = fm.identity(A)
            if I.shape != (d, d, 1, 1) or not np.array_equal(I[:, :, 0, 0], np.eye(d)):
                self.V("definition", "identity(A) is not the unit tensor with singleton batch axes", site="identity")
            I2 = fm.identity(dim=d, shape=(2, 3))
            if I2.shape != (d, d, 1, 1) or not np.array_equal(I2[:, :, 0, 0], np.eye(d)):
                self.V("definition", "identity(dim=, shape=) is not the unit tensor with one singleton axis per batch axis", site="identity.dim-shape")
            R4 = fm.ravel(fm.dya(A, A))
            if R4.shape != (d**4,) + A.shape[2:] or not np.array_equal(fm.reshape(R4, (d, d, d, d)), fm.dya(A, A)):
                self.V("definition", "ravel / reshape do not round-trip a fourth-order tensor batch", site="ravel-reshape")
            self.sigs.append(name)
        else:
            raise ValueError(name)


def run(doc, log):
    p = doc["pool"]
    S = Streams(p["seed"])
    pool = SimPool(processes=p["n"], rng=S["sched"], order=p["order"], fail_jobs=[p["fail"]] if "fail" in p else [])
    m = Machine(doc, log)
    m.fired = False
    m.chunked = False
    with pool:
        for k, op in enumerate(doc["ops"]):
            try:
                m.step(op, pool)
            except (Violation, Discard):
                raise
            except Exception as e:
                from ..kernel import origin

                if origin(e) != "felupe":
                    raise
                # a valid call (documented arguments, documented order) must return, not raise
                raise Violation(PROP, "definition", f"{op['r']}: valid call raised {type(e).__name__}: {e}", site=f"{op['r']}.raised")
            log.ev("op", k=k, r=op["r"])
    if pool.fired and not m.fired:
        raise Violation(PROP, "worker-fault", "a pool job failed but no call raised", site="pool")
    log.ev("end", njobs=pool.njobs, order=adigest(np.asarray(pool.order, dtype=np.int64)))
    used_dirty = log.counters.get("variant:out-dirty", 0) > 0
    return {
        "signature": "|".join(m.sigs) + f"|{p['n']}{p['order']}",
        "nontrivial": bool(m.chunked or used_dirty),
        "faults_fired": ["pool_job"] if pool.fired else [],
        "sim": {"operations": len(doc["ops"]), "pool_jobs": pool.njobs, "variant_comparisons": m.nvariants},
    }


def shrink(doc):
    out = []
    n = len(doc["ops"])
    if n > 1:
        for cut in (n // 2, n - 1):
            d = copy.deepcopy(doc)
            d["ops"] = d["ops"][:cut]
            out.append(d)
            d = copy.deepcopy(doc)
            d["ops"] = d["ops"][n - cut :]
            out.append(d)
        for i in range(min(n, 40)):
            d = copy.deepcopy(doc)
            d["ops"].pop(i)
            out.append(d)
    for i, op in enumerate(doc["ops"][:10]):
        for key, val in (("out", None), ("parallel", False), ("bcast", None)):
            if op.get(key):
                d = copy.deepcopy(doc)
                d["ops"][i][key] = val
                out.append(d)
    if doc["batch"] != [1, 1]:
        d = copy.deepcopy(doc)
        d["batch"] = [1, 1]
        out.append(d)
    if doc["pool"]["n"] != 2:
        d = copy.deepcopy(doc)
        d["pool"]["n"] = 2
        out.append(d)
    return out
