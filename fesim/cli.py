"""Entry point: ./check <ID> [--tier quick|thorough] [--replay FILE] [--runs N] [--budget S]

exit 0: property held on everything explored (known findings are printed, not counted)
exit 1: `VIOLATION property=<id> replay=<path>` printed for at least one unlisted violation
exit 2: harness error (worker died, nondeterminism, wall timeout, exception in fesim)
"""
import argparse
import copy
import importlib
import json
import os
import shutil
import sys
import tempfile
import time

HERE = os.path.dirname(os.path.dirname(os.path.abspath(__file__)))
sys.path.insert(0, HERE)

from fesim import kernel, runner  # noqa: E402

CLAIMED = ["C01", "C02", "C03", "C07", "C09", "C10", "C15", "C17", "C18", "C20"]

# default budgets: (max runs, wall seconds for the exploration part)
BUDGET = {"quick": (100000, 55.0), "thorough": (10000000, 900.0)}


def load_known():
    p = os.path.join(HERE, "known_findings.json")
    if not os.path.exists(p):
        return []
    return json.load(open(p)).get("findings", [])


def match_known(res, known):
    for k in known:
        if k.get("status") != "open":
            continue
        if k["property"] != res.get("prop"):
            continue
        if k.get("monitor") not in (None, res.get("monitor")):
            continue
        if k.get("site") not in (None, res.get("site")):
            continue
        if "fault" in k and k["fault"] != res.get("fault"):
            continue
        return k
    return None


def vkey(res):
    return (res.get("prop"), res.get("monitor"), res.get("fault") is None)


def minimise(pool_req, mod, prop, doc, res, max_runs=120):
    """Greedy structural shrinking: accept a candidate iff the same (monitor, site) recurs."""
    key = res.get("monitor")
    cur, cur_res = doc, res
    runs = 0
    progress = True
    while progress and runs < max_runs:
        progress = False
        cands = mod.shrink(cur) if hasattr(mod, "shrink") else []
        if not cands:
            break
        reqs = [{"prop": prop, "doc": c, "wall_cap": 120} for c in cands]
        results = pool_req(reqs)
        runs += len(reqs)
        for c, r in zip(cands, results):
            if r.get("outcome") == "violation" and r.get("monitor") == key:
                cur, cur_res = c, r
                progress = True
                break
    return cur, cur_res, runs


def process_prefix(docs, results, r):
    """Documents the same worker interpreter ran before the run with result r, in order."""
    w, q = r.get("_worker"), r.get("_wseq", 0)
    if w is None or q is None or q < 0:
        return []
    start = max([x.get("_wseq", 0) for x in results if x.get("_worker") == w and x.get("_wseq", 0) < 0] + [-1])
    pre = [(x.get("_wseq"), d) for d, x in zip(docs, results) if x.get("_worker") == w and x.get("_wseq") is not None and 0 <= x.get("_wseq") < q]
    # only the runs since the last restart of that interpreter
    restarts = [x.get("_wseq") for x in results if x.get("_worker") == w and x.get("_wseq") == -1]
    pre.sort(key=lambda t: t[0])
    return [d for _, d in pre]


def minimise_prefix(prop, prefix, doc, res, scratch, max_runs=14):
    """Does prefix + doc reproduce in one fresh interpreter? If so drop chunks of the prefix greedily."""

    def fails(pre):
        out = runner.run_fresh_sequence([{"prop": prop, "doc": p, "wall_cap": 120} for p in pre] + [{"prop": prop, "doc": doc, "wall_cap": 300}], scratch=scratch)
        last = out[-1]
        return last.get("outcome") == "violation" and last.get("monitor") == res.get("monitor")

    if not prefix or not fails(prefix):
        return prefix, False
    runs = 1
    cur = list(prefix)
    chunk = max(1, len(cur) // 2)
    while chunk >= 1 and runs < max_runs and len(cur) > 1:
        i = 0
        shrunk = False
        while i < len(cur) and runs < max_runs:
            cand = cur[:i] + cur[i + chunk :]
            runs += 1
            if cand and fails(cand):
                cur = cand
                shrunk = True
            else:
                i += chunk
        if not shrunk or chunk == 1:
            chunk //= 2
    return cur, True


def write_replay(prop, doc, res, minimised_from=None, shrink_runs=0, prefix=None):
    os.makedirs(os.path.join(HERE, "replays"), exist_ok=True)
    name = f"{prop}-{doc.get('seed', 0)}-{res.get('monitor')}.json"
    path = os.path.join(HERE, "replays", name)
    rec = {
        "property": prop,
        "violation": {k: res.get(k) for k in ("monitor", "detail", "site", "fault")},
        "digest": res.get("digest"),
        "doc": doc,
        "faults_fired": res.get("faults_fired"),
        "log_head": res.get("log_head"),
        "shrink_runs": shrink_runs,
    }
    if minimised_from is not None:
        rec["unminimised_doc"] = minimised_from
    if prefix:
        rec["prefix_docs"] = prefix  # run first, in this order, in the same interpreter
    with open(path, "w") as f:
        json.dump(kernel.jsonable(rec), f, indent=1)
    return path


def replay(prop, path):
    rec = json.load(open(path))
    doc = rec["doc"]
    if rec.get("prefix_docs"):
        res = runner.run_fresh_sequence([{"prop": prop, "doc": p, "wall_cap": 120} for p in rec["prefix_docs"]] + [{"prop": prop, "doc": doc, "wall_cap": 300}])[-1]
    else:
        res = runner.run_fresh({"prop": prop, "doc": doc, "wall_cap": 300})
    print(json.dumps({k: res.get(k) for k in ("outcome", "monitor", "detail", "site", "fault", "digest", "reason")}, indent=1))
    if res.get("outcome") == "violation":
        same = res.get("monitor") == rec["violation"]["monitor"]
        k = match_known(res, load_known())
        if k is not None:
            print(f"KNOWN-FINDING: property={prop} {k['what']}")
            return 0
        print(f"VIOLATION property={prop} replay={path}" + ("" if same else "  (different monitor than recorded)"))
        return 1
    if res.get("outcome") == "harness_error":
        print(res.get("detail"), res.get("traceback", ""), res.get("stderr", ""), file=sys.stderr)
        return 2
    return 0


def check(prop, tier, verif_seed, max_runs=None, budget=None, nworkers=None, write_evidence=True, quiet=False):
    t0 = time.time()
    mod = importlib.import_module(f"fesim.props.{prop}")
    bmax, bwall = getattr(mod, "BUDGET", BUDGET)[tier] if hasattr(mod, "BUDGET") else BUDGET[tier]
    if max_runs is not None:
        bmax = max_runs
    if budget is not None:
        bwall = budget
    known = load_known()
    scratch = tempfile.mkdtemp(prefix="fesim-")
    nworkers = nworkers or min(16, os.cpu_count() or 1)
    results = []
    docs = []
    stats = {"pass": 0, "discard": 0, "violation": 0, "harness_error": 0}
    print(f"VERIF_SEED={verif_seed} property={prop} tier={tier} workers={nworkers} budget={bwall}s max_runs={bmax}", flush=True)
    pool = runner.Pool(nworkers, hashseed="0", scratch=scratch)
    cap = getattr(mod, "WALL_CAP", 180)  # generous: the machine may be heavily over-subscribed
    try:
        deadline = t0 + bwall
        harness = []

        def make_req(k):
            d = mod.generate(kernel.run_seed(verif_seed, prop, tier, k), tier, k)
            return {"prop": prop, "doc": d, "wall_cap": cap}

        nh = [0]

        def stop():
            return time.time() > deadline

        for k, req, r in pool.stream(make_req, stop, bmax):
            docs.append(req["doc"])
            results.append(r)
            stats[r["outcome"]] = stats.get(r["outcome"], 0) + 1
            if r["outcome"] == "harness_error":
                harness.append((req["doc"], r))
        explore_s = time.time() - t0
        # determinism sample: same documents, fresh interpreters, other PYTHONHASHSEED
        nd = {"quick": 8, "thorough": 64}[tier]
        idx = [i for i, r in enumerate(results) if r["outcome"] in ("pass", "discard", "violation")]
        step = max(1, len(idx) // nd)
        sample = idx[::step][:nd]
        nondet = []
        if sample:
            with runner.Pool(min(nworkers, len(sample)), hashseed="1", scratch=scratch) as p2:
                res2 = p2.map([{"prop": prop, "doc": docs[i], "wall_cap": cap} for i in sample])
            for i, r2 in zip(sample, res2):
                unstable = (r2.get("counters") or {}).get("numerics:singular-operator") or (results[i].get("counters") or {}).get("numerics:singular-operator")
                if r2.get("digest") != results[i].get("digest") or (r2.get("outcome") != results[i].get("outcome") and not unstable):
                    nondet.append((i, results[i].get("digest"), r2.get("digest"), r2.get("outcome"), r2.get("detail")))
        # violations --------------------------------------------------------------------------
        viol = [(d, r) for d, r in zip(docs, results) if r["outcome"] == "violation"]
        groups = {}
        for d, r in viol:
            groups.setdefault(vkey(r), []).append((d, r))
        exit_code = 0
        lines = []
        reported = []
        nmin = [0]
        for key, lst in sorted(groups.items(), key=lambda kv: str(kv[0])):
            seen_known = {}
            rest = []
            for d, r in lst:
                kf = match_known(r, known)
                if kf is not None:
                    seen_known[kf["what"]] = seen_known.get(kf["what"], 0) + 1
                else:
                    rest.append((d, r))
            for what, n in seen_known.items():
                lines.append(f"KNOWN-FINDING: property={prop} {what} (seen in {n} runs)")
            if not rest:
                continue
            lst = rest
            d, r = lst[0]
            nmin[0] += 1
            if nmin[0] <= 3 and time.time() - t0 < bwall + 120:
                md, mr, nshrink = minimise(lambda reqs: pool.map(reqs), mod, prop, d, r, max_runs=80)
            else:
                md, mr, nshrink = d, r, 0
            path = write_replay(prop, md, mr, minimised_from=d if md is not d else None, shrink_runs=nshrink)
            conf = runner.run_fresh({"prop": prop, "doc": md, "wall_cap": 300}, scratch=scratch)
            if not (conf.get("outcome") == "violation" and conf.get("monitor") == mr.get("monitor")):
                path = write_replay(prop, d, r)
                lines.append(f"HARNESS-NOTE: minimised replay did not reproduce in a fresh process; unminimised document reported")
                conf2 = runner.run_fresh({"prop": prop, "doc": d, "wall_cap": 300}, scratch=scratch)
                if not (conf2.get("outcome") == "violation" and conf2.get("monitor") == r.get("monitor")):
                    # not a function of the document alone: state left in the interpreter by earlier
                    # runs. Replay = the earlier documents of that interpreter, then this one.
                    prefix = process_prefix(docs, results, r)
                    pre, ok_ = minimise_prefix(prop, prefix, d, r, scratch)
                    if ok_:
                        path = write_replay(prop, d, r, prefix=pre)
                        lines.append(f"HARNESS-NOTE: the violation needs {len(pre)} earlier run(s) in the same interpreter (process-global state); the replay file holds them as 'prefix_docs'")
                    else:
                        lines.append("HARNESS-NOTE: the violation did not reproduce in a fresh interpreter, not even after the earlier runs of its worker")
                mr = r
            lines.append(f"VIOLATION property={prop} replay={path}")
            lines.append(f"  monitor={mr.get('monitor')} site={mr.get('site')} fault={mr.get('fault')} runs={len(lst)} detail={mr.get('detail')}")
            reported.append({"monitor": mr.get("monitor"), "site": mr.get("site"), "fault": mr.get("fault"), "replay": path, "runs": len(lst)})
            exit_code = 1
        # known findings that are registered with a fixed replay document are re-run every time
        for kf in known:
            if kf["property"] == prop and kf.get("status") == "open" and kf.get("replay") and not any(kf["what"] in l for l in lines):
                rp = os.path.join(HERE, kf["replay"])
                rr = runner.run_fresh({"prop": prop, "doc": json.load(open(rp))["doc"], "wall_cap": 300}, scratch=scratch)
                if rr.get("outcome") == "violation" and match_known(rr, known) is kf:
                    lines.append(f"KNOWN-FINDING: property={prop} {kf['what']} (registered replay {kf['replay']})")
        if harness or nondet:
            exit_code = 2 if exit_code == 0 else exit_code
        for l in lines:
            print(l)
        for d, r in harness[:3]:
            print("HARNESS_ERROR:", r.get("detail"), file=sys.stderr)
            print(r.get("traceback", r.get("stderr", "")), file=sys.stderr)
        for nd_ in nondet[:3]:
            print("HARNESS_ERROR: nondeterminism", nd_, file=sys.stderr)
        wall = time.time() - t0
        if write_evidence:
            ev = build_evidence(prop, tier, verif_seed, mod, docs, results, stats, wall, explore_s, len(sample), len(nondet), reported, lines, nworkers)
            os.makedirs(os.path.join(HERE, "evidence"), exist_ok=True)
            with open(os.path.join(HERE, "evidence", f"{prop}.json"), "w") as f:
                json.dump(ev, f, indent=1)
        print(
            f"{prop} {tier}: runs={len(results)} pass={stats['pass']} discard={stats['discard']} violation-runs={stats['violation']} "
            f"harness_errors={stats['harness_error']} nondeterministic={len(nondet)}/{len(sample)} wall={wall:.1f}s exit={exit_code}",
            flush=True,
        )
        return exit_code
    finally:
        pool.close()
        shutil.rmtree(scratch, ignore_errors=True)


def build_evidence(prop, tier, seed, mod, docs, results, stats, wall, explore_s, ndet, nnondet, reported, lines, nworkers):
    sigs = set()
    counters = {}
    faults = {}
    discards = {}
    sim = {}
    for r in results:
        if r.get("nontrivial") and r.get("signature"):
            sigs.add(r["signature"])
        for k, v in (r.get("counters") or {}).items():
            counters[k] = counters.get(k, 0) + v
        for f in r.get("faults_fired") or []:
            faults[f] = faults.get(f, 0) + 1
        if r["outcome"] == "discard":
            discards[r.get("reason")] = discards.get(r.get("reason"), 0) + 1
        for k, v in (r.get("sim") or {}).items():
            if isinstance(v, (int, float)):
                sim[k] = sim.get(k, 0) + v
    samples = []
    for d, r in zip(docs, results):
        if r.get("nontrivial") and len(samples) < 3:
            samples.append({"document": d, "outcome": r["outcome"], "digest": r.get("digest"), "event_log_head": (r.get("log_head") or [])[:12], "faults_fired": r.get("faults_fired")})
    if not samples and docs:
        samples.append({"document": docs[0], "outcome": results[0]["outcome"]})
    info = getattr(mod, "EVIDENCE", {})
    zero_probes = [p for p in info.get("probes_expected", []) if counters.get(p, 0) == 0]
    ev = {
        "property_id": prop,
        "tier": tier,
        "seed": int(seed),
        "level": "exploration",
        "coverage": {
            "evaluations": len(results),
            "distinct_nontrivial": len(sigs),
            "rule": info.get(
                "rule",
                "one evaluation = one simulated run of a generated scenario document under a seeded fault plan/schedule; "
                "non-trivial = made real progress (>= 1 converged substep with non-zero displacement, or a fault fired inside an operation); "
                "distinct = distinct scenario signature (mesh family, field kind, items+materials, load case, history shape, fault kinds fired, how the job ended)",
            ),
            "samples": samples,
            "outcomes": stats,
            "discards": discards,
            "faults_fired": faults,
            "probes": counters,
            "probes_stuck_at_zero": zero_probes,
            "simulated": sim,
            "runs_per_hour": int(len(results) / max(explore_s, 1e-9) * 3600),
            "seeds": {"VERIF_SEED": int(seed), "run_seed": "blake2b(VERIF_SEED/property/tier/k)", "k_first": 0, "k_last": len(results) - 1, "seeds_per_hour": int(len(results) / max(explore_s, 1e-9) * 3600)},
            "simulated_time": {"unit": "load-time units = converged substeps of the simulated load histories (felupe has no wall-clock dependent behaviour; SimClock reads are counted separately)", "load_time_units": sim.get("substeps_converged", 0) + sim.get("load_time_units", 0) * 0, "clock_reads": sim.get("clock_reads", 0), "operations": sim.get("operations", 0)},
            "workers": nworkers,
            "determinism_sample": {"reran_in_fresh_interpreter_with_other_hashseed": ndet, "digest_mismatches": nnondet},
            "violations_reported": reported,
            "known_findings_seen": [l for l in lines if l.startswith("KNOWN-FINDING")],
            "clauses_sampled_only": info.get("clauses_sampled_only", []),
            "components": info.get(
                "components",
                {
                    "real": ["felupe (all of it, from /repo/src)", "numpy", "scipy incl. SuperLU", "meshio", "h5py/HDF5 on a scratch file", "tensortrax"],
                    "simulated": ["linear solver fault layer", "clock (perf_counter)", "user callbacks", "constitutive fault wrapper"],
                },
            ),
        },
        "assumptions": info.get("assumptions", []) + ([f"probe never hit in this run: {p}" for p in zero_probes]),
        "wall_s": round(wall, 2),
        "violations": len(reported),
    }
    return ev


def setup():
    import felupe
    import h5py  # noqa: F401
    import meshio  # noqa: F401
    import numpy
    import scipy

    assert os.path.realpath(felupe.__file__).startswith("/repo/src/"), felupe.__file__
    print("ok: python", sys.version.split()[0], "numpy", numpy.__version__, "scipy", scipy.__version__, "felupe", felupe.__version__, "from", felupe.__file__)
    return 0


def main(argv=None):
    argv = sys.argv[1:] if argv is None else argv
    if argv and argv[0] == "selftest":
        from fesim import selftest

        return selftest.main(int(os.environ.get("VERIF_SEED", "0")))
    ap = argparse.ArgumentParser()
    ap.add_argument("prop")
    ap.add_argument("--tier", default=os.environ.get("VERIF_TIER", "quick"), choices=["quick", "thorough"])
    ap.add_argument("--replay")
    ap.add_argument("--runs", type=int)
    ap.add_argument("--budget", type=float)
    ap.add_argument("--workers", type=int)
    ap.add_argument("--no-evidence", action="store_true")
    a = ap.parse_args(argv)
    if a.prop == "setup":
        return setup()
    seed = int(os.environ.get("VERIF_SEED", "0"))
    if a.prop == "selftest":
        from fesim import selftest

        return selftest.main(seed)
    if a.replay:
        return replay(a.prop, a.replay)
    return check(a.prop, a.tier, seed, max_runs=a.runs, budget=a.budget, nworkers=a.workers, write_evidence=not a.no_evidence)


if __name__ == "__main__":
    try:
        rc = main()
    except SystemExit:
        raise
    except BaseException:
        import traceback

        traceback.print_exc()
        rc = 2
    sys.exit(rc)
