"""Job engine: runs `Job.evaluate` (or `Step.generate`, or `newtonrhapson`) of a world under
the simulator's seams and records the history every monitor works from.

Seams used (no source change in /repo):
  * `felupe.mechanics._step.newtonrhapson`  -> transparent recording wrapper (substep start /
    end / exception, the dof0/dof1/ext0 the step handed over);
  * Newton's own `solve=`, `check=`, `solver=` keyword arguments -> observation of (K, f, x)
    at every iteration, fault layer around the real SuperLU;
  * `felupe.tools._newton.perf_counter` -> SimClock;
  * constitutive object wrapper (constructor argument of every solid body);
  * job callback (constructor argument).
"""
import numpy as np
from scipy.sparse.linalg import spsolve

import felupe as fem
import felupe.mechanics._step as _step_mod
import felupe.tools._newton as _newton_mod

from .kernel import (
    Unexpected,
    pick,
    Misbehaviour,
    newton_failure,
    HarnessError,
    origin,
    Discard,
    Violation,
    SimCallbackError,
    SimMaterialError,
    SimSolverError,
    adigest,
)

REAL_NEWTON = _newton_mod.newtonrhapson


# ----------------------------------------------------------------------------------------
# clock
# ----------------------------------------------------------------------------------------
class SimClock:
    """Stands in for time.perf_counter in felupe.tools._newton. Kinds: normal (monotone),
    skew (fast), jump (large forward steps), backwards (steps back), frozen."""

    def __init__(self, kind="normal", seed=0):
        import random

        self.kind = kind
        self.t = 1000.0
        self.r = random.Random(seed)
        self.calls = 0

    def __call__(self):
        self.calls += 1
        k = self.kind
        if k == "normal":
            self.t += 1e-3
        elif k == "skew":
            self.t += 7.3
        elif k == "jump":
            self.t += 1e-3 if self.r.random() < 0.7 else 86400.0 * self.r.random()
        elif k == "backwards":
            self.t += self.r.choice([1e-3, -5.0, -3600.0, 2.0])
        elif k == "frozen":
            pass
        return self.t


# ----------------------------------------------------------------------------------------
# constitutive wrapper (fault layer F5; also the observation point of C03 monitors)
# ----------------------------------------------------------------------------------------
def wrap_umat(inner, hook):
    """Return an object with the same interface as `inner` (including presence of `out=` in
    the signatures, which SolidBody inspects) that calls hook(kind, inner, x, kwargs) ->
    result."""
    import inspect

    has_out_g = "out" in inspect.signature(inner.gradient).parameters
    has_out_h = "out" in inspect.signature(inner.hessian).parameters

    class _W:
        def __init__(self):
            self.inner = inner
            if hasattr(inner, "x"):
                self.x = inner.x

        def __getattr__(self, name):
            return getattr(inner, name)

    if has_out_g:

        def gradient(self, x, out=None, **kw):
            return hook("gradient", inner, x, dict(kw, out=out))

    else:

        def gradient(self, x, **kw):
            return hook("gradient", inner, x, kw)

    if has_out_h:

        def hessian(self, x, out=None, **kw):
            return hook("hessian", inner, x, dict(kw, out=out))

    else:

        def hessian(self, x, **kw):
            return hook("hessian", inner, x, kw)

    _W.gradient = gradient
    _W.hessian = hessian
    return _W()


# ----------------------------------------------------------------------------------------
# engine
# ----------------------------------------------------------------------------------------
class Engine:
    def __init__(self, world, doc, log, monitors=(), faults=None):
        self.w = world
        self.doc = doc
        self.log = log
        self.monitors = list(monitors)
        self.faults = list(faults if faults is not None else doc.get("faults", []))
        self.fired = []
        self.history = []  # one record per Newton call (substep attempt)
        self.callbacks = []  # (step, substep, digest of x, ...) as seen by the job callback
        self.cur = None
        self.step_of = {id(s.items): j for j, s in enumerate(world.steps)}
        self.substep_counter = {}
        self.solver_calls = 0
        self.umat_calls = 0
        self.inexact = None
        for f in self.faults:
            if f["kind"] == "solver_inexact":
                self.inexact = f
        knobs = doc.get("knobs", {})
        self.clock = SimClock(knobs.get("clock", "normal"), seed=knobs.get("clock_seed", 0))

    # -- fault lookup ----------------------------------------------------------------------
    def _fault_at(self, kinds, **where):
        """First not-yet-fired fault of one of `kinds` whose position keys all match
        `where` (a key the fault does not carry matches anything)."""
        for f in self.faults:
            if f["kind"] in kinds and not f.get("_fired"):
                if all(where[k] == v for k, v in f.items() if k in where):
                    return f
        return None

    def _fire(self, f, **info):
        f["_fired"] = True
        rec = {k: v for k, v in f.items() if not k.startswith("_")}
        rec.update(info)
        self.fired.append(rec)
        self.log.ev("fault", **rec)
        self.log.count("fault:" + f["kind"])

    # -- solver seam (S4) --------------------------------------------------------------------
    def solver(self, A, b):
        self.solver_calls += 1
        c = self.cur
        it = c["iter"] if c else -1
        where = dict(step=c["step"], substep=c["substep"], iter=it) if c else {}
        if c is not None:
            c["lin"].append({"A": A.copy(), "b": np.array(b, copy=True)})
        f = self._fault_at(("solver_raise",), **where)
        if f:
            self._fire(f)
            raise SimSolverError("injected: factorisation failed")
        try:
            x = spsolve(A, b)
        except Exception as e:
            e._fesim_real = True
            raise
        if c is not None:
            c["lin"][-1]["x_exact"] = np.array(x, copy=True)
        f = self._fault_at(("solver_nan", "solver_inf", "solver_zero", "solver_flip", "solver_scale"), **where)
        if f:
            self._fire(f)
            k = f["kind"]
            if k == "solver_nan":
                x = np.full_like(x, np.nan)
            elif k == "solver_inf":
                x = np.array(x, copy=True)
                x[:: max(1, len(x) // 3)] = np.inf
            elif k == "solver_zero":
                x = np.zeros_like(x)
            elif k == "solver_flip":
                x = -x
            elif k == "solver_scale":
                x = f.get("factor", 3.0) * x
        for g in self.faults:
            if g["kind"] == "solver_stall" and g["step"] == where.get("step") and g["substep"] == where.get("substep"):
                if not g.get("_fired"):
                    self._fire(g)
                x = np.zeros_like(x)
                self.log.count("stall-iterations")
        if self.inexact is not None:
            g = self.inexact
            rng = np.random.default_rng([g.get("seed", 0), self.solver_calls])
            rel = g.get("rel", 1e-6)
            x = x * (1.0 + rel * rng.uniform(-1, 1, x.shape))
            self.log.count("fault:solver_inexact")
            if not g.get("_fired"):
                self._fire(g)
                g["_fired"] = True
        if c is not None:
            c["lin"][-1]["x"] = np.array(x, copy=True)
        return x

    # -- Newton seams ---------------------------------------------------------------------
    def _solve(self, A, b, x, dof1, dof0, offsets=None, ext0=None, solver=spsolve):
        c = self.cur
        c["iter"] += 1
        it = {
            "K": A.copy(),
            "b": np.array(b, copy=True),
            "x": [f.values.copy() for f in x.fields],
            "xobj": x,
        }
        c["its"].append(it)
        c["lin"] = []
        for m in self.monitors:
            m.on_solve(self, c, it)
        dx = _newton_mod.solve(A, b, x, dof1, dof0, offsets=offsets, ext0=ext0, solver=solver)
        it["dx"] = np.array(dx, copy=True)
        it["lin"] = c["lin"]
        for m in self.monitors:
            m.after_solve(self, c, it)
        return dx

    def _check(self, dx, x, f, xtol, ftol, dof1=None, dof0=None, items=None):
        c = self.cur
        it = c["its"][-1]
        before = self.statevars_snapshot()
        out = _newton_mod.check(dx=dx, x=x, f=f, xtol=xtol, ftol=ftol, dof1=dof1, dof0=dof0, items=items)
        after = self.statevars_snapshot()
        it.update(
            f_after=np.array(f, copy=True),
            x_after=[g.values.copy() for g in x.fields],
            xnorm=float(out[0]),
            fnorm=float(out[1]),
            success=bool(out[2]),
            sv_before_check=before,
            sv_after_check=after,
            trial=self.trial_snapshot(),
        )
        self.log.ev("iter", step=c["step"], substep=c["substep"], it=c["iter"], fnorm=out[1], xnorm=out[0], ok=bool(out[2]))
        for m in self.monitors:
            m.on_check(self, c, it)
        return out

    def statevars_snapshot(self):
        snap = []
        for item in self.w.items:
            res = getattr(item, "results", None)
            sv = getattr(res, "statevars", None)
            snap.append(None if sv is None else (id(sv), adigest(sv)))
        return snap

    def trial_snapshot(self):
        snap = []
        for item in self.w.items:
            res = getattr(item, "results", None)
            sv = getattr(res, "_statevars", None)
            snap.append(None if sv is None else adigest(sv))
        return snap

    def _newton(self, *args, **kwargs):
        items = kwargs.get("items")
        j = self.step_of.get(id(items), -1)
        i = self.substep_counter.get(j, 0)
        self.substep_counter[j] = i + 1
        x0 = kwargs.get("x0")
        xs = x0 if x0 is not None else items[0].field
        c = {
            "step": j,
            "substep": i,
            "iter": -1,
            "dof0": np.array(kwargs.get("dof0"), copy=True),
            "dof1": np.array(kwargs.get("dof1"), copy=True),
            "ext0": np.array(kwargs.get("ext0"), copy=True),
            "x_start": [f.values.copy() for f in xs.fields],
            "sv_start": self.statevars_snapshot(),
            "its": [],
            "lin": [],
            "outcome": None,
            "tol": kwargs.get("tol", np.sqrt(np.finfo(float).eps)),
            "maxiter": kwargs.get("maxiter", 16),
        }
        self.cur = c
        self.history.append(c)
        self.log.ev("substep-start", step=j, substep=i, ext0=c["ext0"], x=c["x_start"])
        for m in self.monitors:
            m.on_substep_start(self, c)
        kw = dict(kwargs)
        kw["solve"] = self._solve_fn
        kw["check"] = self._check_fn
        kw["solver"] = self.solver
        uk = self.doc.get("update_kind")
        if uk == "inplace":

            def update(x, dx):
                x += dx
                return x

            kw["update"] = update
            self.log.count("newton:update-in-place")
        elif uk == "copy":

            def update(x, dx):
                y = x.copy() if hasattr(x, "copy") else np.array(x, copy=True)
                y += dx
                return y

            kw["update"] = update
            self.log.count("newton:update-copy")
        try:
            res = REAL_NEWTON(*args, **kw)
        except BaseException as e:
            if isinstance(e, (Violation, Discard, HarnessError, Unexpected, Misbehaviour)):
                raise
            if origin(e) == "harness":
                import traceback

                raise HarnessError("".join(traceback.format_exception(e))[-3000:]) from e
            if origin(e) == "felupe" and not self.fired and not newton_failure(e):
                import traceback

                tb = traceback.extract_tb(e.__traceback__)
                where = next((f"{fr.filename.split('/felupe/')[-1]}:{fr.name}" for fr in reversed(tb) if "/felupe/" in fr.filename), "?")
                raise Unexpected(e, where) from e
            c["outcome"] = "raised"
            c["exc"] = e
            c["exc_type"] = type(e).__name__
            c["sv_end"] = self.statevars_snapshot()
            self.log.ev("substep-raised", step=j, substep=i, exc=type(e).__name__)
            for m in self.monitors:
                m.on_substep_end(self, c)
            self.cur = None
            raise
        c["outcome"] = "returned"
        c["res"] = res
        c["sv_end"] = self.statevars_snapshot()
        self.log.ev(
            "substep-returned",
            step=j,
            substep=i,
            iterations=res.iterations,
            success=res.success,
            x=[f.values for f in res.x.fields],
        )
        for m in self.monitors:
            m.on_substep_end(self, c)
        self.cur = None
        return res

    # -- user code (S8) ----------------------------------------------------------------------
    def umat_hook(self, k):
        def hook(kind, inner, x, kw):
            self.umat_calls += 1
            c = self.cur
            if c is not None:
                f = self._fault_at(("umat_raise", "umat_nan"), step=c["step"], substep=c["substep"], iter=c["iter"], item=k, call=kind)
                if f:
                    self._fire(f)
                    if f["kind"] == "umat_raise":
                        raise SimMaterialError("injected: material failure")
                    out = getattr(inner, kind)(x, **kw)
                    out = list(out)
                    out[0] = np.full_like(out[0], np.nan)
                    return out
            for m in self.monitors:
                r = m.on_umat(self, k, kind, inner, x, kw)
                if r is not None:
                    return r
            return getattr(inner, kind)(x, **kw)

        return hook

    def callback(self, j, i, substep, **kw):
        self.log.ev("callback", step=j, substep=i, x=[f.values for f in substep.x.fields])
        rec = {
            "step": j,
            "substep": i,
            "x": [f.values.copy() for f in substep.x.fields],
            "res": substep,
            "sv": self.statevars_snapshot(),
            # the committed arrays themselves (a history kept by reference)
            "sv_ref": [getattr(getattr(item, "results", None), "statevars", None) for item in self.w.items],
        }
        self.callbacks.append(rec)
        for m in self.monitors:
            m.on_callback(self, rec)
        if self.w.__dict__.get("manual_ramps"):
            self.w.manual_advance(j, i)
            self.log.count("boundaries-moved-by-the-caller")
        if getattr(self.w, "shadow", None) is not None:
            self.w.poke_shadow()
            self.log.count("shadow-model-evaluated")
        f = self._fault_at(("callback_raise", "callback_kbint"), step=j, substep=i)
        if f:
            self._fire(f)
            if f["kind"] == "callback_kbint":
                e = KeyboardInterrupt("injected")
                e._fesim_injected = True
                raise e
            raise SimCallbackError("injected: callback failure")

    # -- driving ----------------------------------------------------------------------------
    def __enter__(self):
        eng = self

        # Newton passes only the keyword names it finds in the signature of `solve`
        def solve(A, b, x, dof1, dof0, offsets=None, ext0=None, solver=spsolve):
            return eng._solve(A, b, x, dof1, dof0, offsets=offsets, ext0=ext0, solver=solver)

        def check(dx, x, f, xtol, ftol, dof1=None, dof0=None, items=None):
            return eng._check(dx, x, f, xtol, ftol, dof1=dof1, dof0=dof0, items=items)

        def newton(*a, **k):
            return eng._newton(*a, **k)

        # the kind of callable handed over as solve= varies with the scenario: a plain function, a
        # functools.partial with a bound keyword (the parameters after it become keyword-only), or a
        # bound method whose ext0 / solver are keyword-only
        kind = ("function", "partial", "method", "own-solver")[pick(self.doc.get("seed", 0), "solve-kind", 4)]
        if kind == "partial":
            import functools

            def solve_d(A, b, x, dof1, dof0, damping=1.0, offsets=None, ext0=None, solver=spsolve):
                return eng._solve(A, b, x, dof1, dof0, offsets=offsets, ext0=ext0, solver=solver)

            solve = functools.partial(solve_d, damping=1.0)
        elif kind == "method":

            class _Solver:
                def solve(self_, A, b, x, dof1, dof0, *, offsets=None, ext0=None, solver=spsolve):
                    return eng._solve(A, b, x, dof1, dof0, offsets=offsets, ext0=ext0, solver=solver)

            solve = _Solver().solve
        elif kind == "own-solver":
            # a callable that brings its own linear solver: no `solver` (and no `offsets`) parameter -
            # Newton hands over only the names it finds in the signature of *this* callable
            def solve_own(A, b, x, dof1, dof0, ext0=None):
                return eng._solve(A, b, x, dof1, dof0, ext0=ext0, solver=eng.solver)

            solve = solve_own
        self._solve_fn = solve
        self._check_fn = check
        self._saved = (_step_mod.newtonrhapson, _newton_mod.perf_counter)
        _step_mod.newtonrhapson = newton
        _newton_mod.perf_counter = self.clock
        return self

    def __exit__(self, *a):
        _step_mod.newtonrhapson, _newton_mod.perf_counter = self._saved
        return False

    def evaluate_kwargs(self):
        nk = dict(self.doc.get("newton", {}))
        knobs = self.doc.get("knobs", {})
        kw = {}
        if "tol" in nk:
            kw["tol"] = nk["tol"]
        if "maxiter" in nk:
            kw["maxiter"] = nk["maxiter"]
        kw["verbose"] = knobs.get("verbose", False)
        if knobs.get("parallel"):
            kw["parallel"] = True
        return kw

    def run_job(self, job_cls=None, job_kwargs=None, job=None, **evaluate_kwargs):
        """Run the whole job; returns (job, exception or None). With `job` the very same job
        object is evaluated again (its steps start over)."""
        job_cls = job_cls or fem.Job
        job_kwargs = dict(job_kwargs or {})
        if job is not None:
            self.substep_counter.clear()
        else:
            job = job_cls(steps=self.w.steps, callback=self.callback, **job_kwargs)
        self.job = job
        kw = self.evaluate_kwargs()
        kw.update(evaluate_kwargs)
        exc = None
        # the ramp tables are the caller's data: the job reads them
        tables = [(j, np.asarray(v), adigest(np.asarray(v))) for j, st in enumerate(self.w.steps) for v in getattr(st, "ramp", {}).values() if not np.isscalar(v)]
        try:
            job.evaluate(**kw)
        except BaseException as e:
            if isinstance(e, (SystemExit, GeneratorExit, Violation, Discard, HarnessError, Unexpected, Misbehaviour)):
                raise
            if origin(e) == "harness":
                import traceback

                raise HarnessError("".join(traceback.format_exception(e))[-3000:]) from e
            exc = e
        for k_, sv0 in getattr(self.w, "given_statevars", {}).items():
            if np.any(sv0 != 0):
                raise Misbehaviour("caller-data", f"the array of initial state variables handed to item {k_} (owned by the caller) was modified while the job ran", site="SolidBody.statevars")
        for rec in self.callbacks:
            for k_, (ref, snap) in enumerate(zip(rec.get("sv_ref", []), rec["sv"])):
                if ref is not None and snap is not None and adigest(ref) != snap[1]:
                    raise Misbehaviour("caller-data", f"the state-variable array of item {k_} committed at substep ({rec['step']},{rec['substep']}) was modified in place later (a history kept by reference changes)", site="Results.statevars")
        for j, arr, dig in tables:
            if adigest(arr) != dig:
                raise Misbehaviour("caller-data", f"the ramp table of step {j} (an array owned by the caller) was modified while the job ran", site="Step.ramp")
        self.log.ev("job-end", exc=None if exc is None else type(exc).__name__, nsub=len(self.callbacks))
        for m in self.monitors:
            m.on_job_end(self, exc)
        return job, exc


class Monitor:
    """Base class: every hook is a no-op."""

    def on_substep_start(self, eng, c):
        pass

    def on_solve(self, eng, c, it):
        pass

    def after_solve(self, eng, c, it):
        pass

    def on_check(self, eng, c, it):
        pass

    def on_substep_end(self, eng, c):
        pass

    def on_umat(self, eng, k, kind, inner, x, kw):
        return None

    def on_callback(self, eng, rec):
        pass

    def on_job_end(self, eng, exc):
        pass
