"""Small executable reference models (independent of the code under test).

Naive assembler: every test/trial space is written as a *generalised basis*
    G[a, i, ..., q, c]   (node a, component i, tensor indices ..., quadrature point, cell)
i.e. the value (or gradient, incl. the hoop entry of axisymmetric fields) of the basis
function "component i of node a". The defining sums are then plain contractions per cell,
scattered to the global index  offset(field) + dim(field) * point + component.
"""
import numpy as np


class Space:
    """Generalised basis of one field for one kind (value / gradient)."""

    def __init__(self, field, grad, offset):
        self.field = field
        self.grad = grad
        self.offset = offset
        region = field.region
        self.cells = region.mesh.cells
        h = np.broadcast_to(region.h, region.h.shape[:2] + (self.cells.shape[0],)) if region.h.shape[-1] != self.cells.shape[0] else region.h
        nc = self.cells.shape[0]
        dim = field.dim
        kind = type(field).__name__
        self.dim = dim
        self.kind = kind
        if not grad:
            # value space: G[a, i, I, q, c] = h_a delta_iI   (I runs over the field components)
            nq = h.shape[1]
            if dim == 1:
                self.G = np.array(h).reshape(h.shape[0], 1, nq, nc)
                self.tshape = ()
            else:
                G = np.zeros((h.shape[0], dim, dim, nq, nc))
                for i in range(dim):
                    G[:, i, i] = h
                self.G = G
                self.tshape = (dim,)
                if kind == "FieldPlaneStrain":
                    self.cut3 = True
        else:
            dh = region.dhdX
            if dh.shape[-1] != nc:
                dh = np.broadcast_to(dh, dh.shape[:3] + (nc,))
            na, nd, nq = dh.shape[:3]
            if kind in ("FieldPlaneStrain", "FieldAxisymmetric"):
                n, m = 3, 3
            else:
                n, m = dim, nd
            G = np.zeros((na, dim, n, m, nq, nc))
            for i in range(dim):
                G[:, i, i, :nd] = dh
            if kind == "FieldAxisymmetric":
                R = field.radius
                G[:, 1, 2, 2] = h / R
            self.G = G
            self.tshape = (n, m)

    def dofs(self):
        """Global unknown of (cell c, node a, component i)."""
        c = self.cells
        return self.offset + self.dim * c[:, :, None] + np.arange(self.dim)[None, None, :]


def weights(field0, dV):
    nc = field0.region.mesh.ncells
    w = np.broadcast_to(dV, dV.shape[:-1] + (nc,)) if dV.shape[-1] != nc else dV
    if type(field0).__name__ == "FieldAxisymmetric":
        return 2 * np.pi * field0.radius * w
    return w


def offsets(fields):
    sizes = [f.values.size for f in fields]
    return np.concatenate([[0], np.cumsum(sizes)]).astype(int)


def _fit(fun, tshape, nq, nc):
    """Bring an integrand block to shape tshape + (nq, nc): broadcast size-one trailing axes;
    a 3D integrand given to a 2D Cartesian space is cut to its in-plane part (documented)."""
    fun = np.asarray(fun, dtype=float)
    if fun.ndim != len(tshape) + 2:
        raise ValueError(f"integrand of order {fun.ndim-2} for a space of order {len(tshape)}")
    fun = fun[tuple(slice(0, t) for t in tshape)]
    return np.broadcast_to(fun, tuple(tshape) + (nq, nc))


def assemble_linear(fields, dV, funs, grad_v):
    """Dense global vector of sum_c sum_q fun : G_v * w for every field block."""
    off = offsets(fields)
    w = weights(fields[0], dV)
    nq, nc = w.shape
    out = np.zeros(off[-1])
    for k, (f, fun, g) in enumerate(zip(fields, funs, grad_v)):
        if fun is None:
            continue
        S = Space(f, bool(g), off[k])
        fn = _fit(fun, S.tshape, nq, nc)
        letters = "IJ"[: len(S.tshape)]
        val = np.einsum(f"ai{letters}qc,{letters}qc,qc->cai", S.G, fn, w)
        np.add.at(out, S.dofs().ravel(), val.ravel())
    return out


def assemble_bilinear(fields_v, fields_u, dV, funs, grad_v, grad_u, pairs, symmetric_fill=False):
    """Dense global matrix. `pairs` lists the (i, j) field blocks the entries of `funs`
    belong to; with symmetric_fill the transposed block (j, i) is filled as well."""
    offv = offsets(fields_v)
    offu = offsets(fields_u)
    w = weights(fields_v[0], dV)
    nq, nc = w.shape
    K = np.zeros((offv[-1], offu[-1]))
    for fun, (i, j) in zip(funs, pairs):
        if fun is None:
            continue
        Sv = Space(fields_v[i], bool(grad_v[i]), offv[i])
        Su = Space(fields_u[j], bool(grad_u[j]), offu[j])
        tv, tu = Sv.tshape, Su.tshape
        fn = _fit(fun, tuple(tv) + tuple(tu), nq, nc)
        lv = "IJ"[: len(tv)]
        lu = "KL"[: len(tu)]
        val = np.einsum(f"ai{lv}qc,{lv}{lu}qc,bk{lu}qc,qc->caibk", Sv.G, fn, Su.G, w)
        rows = Sv.dofs()  # (c, a, i)
        cols = Su.dofs()  # (c, b, k)
        r = np.broadcast_to(rows[:, :, :, None, None], val.shape)
        c = np.broadcast_to(cols[:, None, None, :, :], val.shape)
        np.add.at(K, (r.ravel(), c.ravel()), val.ravel())
        if symmetric_fill and i != j:
            np.add.at(K, (c.ravel(), r.ravel()), val.ravel())
    return K
