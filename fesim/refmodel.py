"""Small executable reference models (independent of the code under test).

Naive assembler: every test/trial space is written as a *generalised basis*
    G[a, i, ..., q, c]   (node a, component i, tensor indices ..., quadrature point, cell)
i.e. the value (or gradient, incl. the hoop entry of axisymmetric fields) of the basis
function "component i of node a". The defining sums are then plain contractions per cell,
scattered to the global index  offset(field) + dim(field) * point + component.
"""
import numpy as np

from .kernel import Discard


class Space:
    """Generalised basis of one field for one kind (value / gradient)."""

    def __init__(self, field, grad, offset):
        self.field = field
        self.grad = grad
        self.offset = offset
        region = field.region
        self.cells = region.mesh.cells
        h = np.broadcast_to(region.h, region.h.shape[:2] + (self.cells.shape[0],)) if region.h.shape[-1] != self.cells.shape[0] else region.h
        nc = self.cells.shape[0]
        dim = field.dim
        kind = type(field).__name__
        self.dim = dim
        self.kind = kind
        if not grad:
            # value space: G[a, i, I, q, c] = h_a delta_iI   (I runs over the field components)
            nq = h.shape[1]
            if dim == 1:
                self.G = np.array(h).reshape(h.shape[0], 1, nq, nc)
                self.tshape = ()
            else:
                G = np.zeros((h.shape[0], dim, dim, nq, nc))
                for i in range(dim):
                    G[:, i, i] = h
                self.G = G
                self.tshape = (dim,)
                if kind == "FieldPlaneStrain":
                    self.cut3 = True
        else:
            dh = region.dhdX
            if dh.shape[-1] != nc:
                dh = np.broadcast_to(dh, dh.shape[:3] + (nc,))
            na, nd, nq = dh.shape[:3]
            if kind in ("FieldPlaneStrain", "FieldAxisymmetric"):
                n, m = 3, 3
            else:
                n, m = dim, nd
            G = np.zeros((na, dim, n, m, nq, nc))
            for i in range(dim):
                G[:, i, i, :nd] = dh
            if kind == "FieldAxisymmetric":
                R = field.radius
                G[:, 1, 2, 2] = h / R
            self.G = G
            self.tshape = (n, m)

    def dofs(self):
        """Global unknown of (cell c, node a, component i)."""
        c = self.cells
        return self.offset + self.dim * c[:, :, None] + np.arange(self.dim)[None, None, :]


def weights(field0, dV):
    nc = field0.region.mesh.ncells
    w = np.broadcast_to(dV, dV.shape[:-1] + (nc,)) if dV.shape[-1] != nc else dV
    if type(field0).__name__ == "FieldAxisymmetric":
        return 2 * np.pi * field0.radius * w
    return w


def offsets(fields):
    sizes = [f.values.size for f in fields]
    return np.concatenate([[0], np.cumsum(sizes)]).astype(int)


def _fit(fun, tshape, nq, nc):
    """Bring an integrand block to shape tshape + (nq, nc): broadcast size-one trailing axes;
    a 3D integrand given to a 2D Cartesian space is cut to its in-plane part (documented)."""
    fun = np.asarray(fun, dtype=float)
    if fun.ndim != len(tshape) + 2:
        raise ValueError(f"integrand of order {fun.ndim-2} for a space of order {len(tshape)}")
    fun = fun[tuple(slice(0, t) for t in tshape)]
    return np.broadcast_to(fun, tuple(tshape) + (nq, nc))


def assemble_linear(fields, dV, funs, grad_v):
    """Dense global vector of sum_c sum_q fun : G_v * w for every field block."""
    off = offsets(fields)
    w = weights(fields[0], dV)
    nq, nc = w.shape
    out = np.zeros(off[-1])
    for k, (f, fun, g) in enumerate(zip(fields, funs, grad_v)):
        if fun is None:
            continue
        S = Space(f, bool(g), off[k])
        fn = _fit(fun, S.tshape, nq, nc)
        letters = "IJ"[: len(S.tshape)]
        val = np.einsum(f"ai{letters}qc,{letters}qc,qc->cai", S.G, fn, w)
        np.add.at(out, S.dofs().ravel(), val.ravel())
    return out


def assemble_bilinear(fields_v, fields_u, dV, funs, grad_v, grad_u, pairs, symmetric_fill=False):
    """Dense global matrix. `pairs` lists the (i, j) field blocks the entries of `funs`
    belong to; with symmetric_fill the transposed block (j, i) is filled as well."""
    offv = offsets(fields_v)
    offu = offsets(fields_u)
    w = weights(fields_v[0], dV)
    nq, nc = w.shape
    K = np.zeros((offv[-1], offu[-1]))
    for fun, (i, j) in zip(funs, pairs):
        if fun is None:
            continue
        Sv = Space(fields_v[i], bool(grad_v[i]), offv[i])
        Su = Space(fields_u[j], bool(grad_u[j]), offu[j])
        tv, tu = Sv.tshape, Su.tshape
        fn = _fit(fun, tuple(tv) + tuple(tu), nq, nc)
        lv = "IJ"[: len(tv)]
        lu = "KL"[: len(tu)]
        val = np.einsum(f"ai{lv}qc,{lv}{lu}qc,bk{lu}qc,qc->caibk", Sv.G, fn, Su.G, w)
        rows = Sv.dofs()  # (c, a, i)
        cols = Su.dofs()  # (c, b, k)
        r = np.broadcast_to(rows[:, :, :, None, None], val.shape)
        c = np.broadcast_to(cols[:, None, None, :, :], val.shape)
        np.add.at(K, (r.ravel(), c.ravel()), val.ravel())
        if symmetric_fill and i != j:
            np.add.at(K, (c.ravel(), r.ravel()), val.ravel())
    return K


# ----------------------------------------------------------------------------------------
# analytic homogeneous solutions from independently written energy functions
# ----------------------------------------------------------------------------------------
def energy(spec):
    """Strain energy W(l1, l2, l3) in principal stretches for the materials the homogeneous
    scenarios use (independently coded from the textbook forms; never felupe's stress code)."""
    name, p = spec["name"], spec["p"]

    def iso(l1, l2, l3):
        J = l1 * l2 * l3
        I1 = l1**2 + l2**2 + l3**2
        I2 = (l1 * l2) ** 2 + (l2 * l3) ** 2 + (l1 * l3) ** 2
        return J, I1, I2, J ** (-2 / 3) * I1, J ** (-4 / 3) * I2

    def vol(J, bulk):
        return 0.0 if bulk is None else bulk * (J - 1) ** 2 / 2

    if name == "NeoHooke":
        return lambda a, b, c: p["mu"] / 2 * (iso(a, b, c)[3] - 3) + vol(a * b * c, p.get("bulk"))
    if name == "NeoHookeCompressible":
        return lambda a, b, c: p["mu"] / 2 * (a * a + b * b + c * c - 3) - p["mu"] * np.log(a * b * c) + p["lmbda"] / 2 * np.log(a * b * c) ** 2
    if name == "AD:neo_hooke":
        return lambda a, b, c: p["mu"] / 2 * (iso(a, b, c)[3] - 3) + vol(a * b * c, p.get("bulk"))
    if name == "AD:mooney_rivlin":
        return lambda a, b, c: p["C10"] * (iso(a, b, c)[3] - 3) + p["C01"] * (iso(a, b, c)[4] - 3) + vol(a * b * c, p.get("bulk"))
    if name == "AD:yeoh":
        return lambda a, b, c: sum(p[k] * (iso(a, b, c)[3] - 3) ** n for k, n in (("C10", 1), ("C20", 2), ("C30", 3))) + vol(a * b * c, p.get("bulk"))
    if name == "AD:ogden":

        def W(a, b, c):
            J = a * b * c
            s = [x * J ** (-1 / 3) for x in (a, b, c)]
            w = 0.0
            for m, al in zip(p["mu"], p["alpha"]):
                w = w + 2 * m / al**2 * (s[0] ** al + s[1] ** al + s[2] ** al - 3)
            return w + vol(J, p.get("bulk"))

        return W
    if name == "AD:saint_venant_kirchhoff":

        def W(a, b, c):
            E = [(x * x - 1) / 2 for x in (a, b, c)]
            return p["mu"] * sum(e * e for e in E) + p["lmbda"] / 2 * sum(E) ** 2

        return W
    raise KeyError(name)


def dW(W, l, k, h=1e-6):
    lp = list(l)
    lm = list(l)
    lp[k] += h
    lm[k] -= h
    return (W(*lp) - W(*lm)) / (2 * h)


def homogeneous(spec, case, lam, planestrain=False):
    """Principal stretches and first Piola-Kirchhoff stresses of the homogeneous solution.
    case 'uniaxial': l1 = lam[0], traction-free lateral directions;
    case 'biaxial' : l1, l2 = lam, traction-free third direction (plane strain: l3 = 1)."""
    from scipy.optimize import brentq as _brentq

    def brentq(f, lo, hi, a0=1.0, **kw):
        # the physically relevant root is the one next to the isochoric guess a0: scan a
        # grid around a0 and take the sign change closest to it
        grid = a0 * np.exp(np.linspace(np.log(0.04), np.log(5.0), 481))
        vals = np.array([f(x) for x in grid])
        idx = [k for k in range(len(grid) - 1) if np.isfinite(vals[k]) and np.isfinite(vals[k + 1]) and vals[k] * vals[k + 1] <= 0]
        if not idx:
            raise Discard("analytic-model-has-no-solution")
        k = min(idx, key=lambda k: abs(np.log(grid[k] / a0)))
        if vals[k] == 0:
            return grid[k]
        if vals[k + 1] == 0:
            return grid[k + 1]
        return _brentq(f, grid[k], grid[k + 1], **kw)

    W = energy(spec)
    if case == "uniaxial":
        l1 = lam[0]
        if planestrain:
            f = lambda a: dW(W, (l1, a, 1.0), 1)
            a = brentq(f, 0.2, 4.0, a0=1 / l1, xtol=1e-14, rtol=1e-14)
            l = (l1, a, 1.0)
        else:
            f = lambda a: dW(lambda x, y, z: W(x, y, z), (l1, a, a), 1) + 0 * a
            # with l2 = l3 = a the stationarity in a of W(l1, a, a) is P22 + P33 = 0 = 2 P22
            g = lambda a: (W(l1, a + 1e-6, a + 1e-6) - W(l1, a - 1e-6, a - 1e-6)) / 2e-6
            a = brentq(g, 0.2, 4.0, a0=l1**-0.5, xtol=1e-14, rtol=1e-14)
            l = (l1, a, a)
    elif case == "biaxial":
        l1, l2 = lam
        if planestrain:
            l = (l1, l2, 1.0)
        else:
            g = lambda a: dW(W, (l1, l2, a), 2)
            a = brentq(g, 0.2, 4.0, a0=1 / (l1 * l2), xtol=1e-14, rtol=1e-14)
            l = (l1, l2, a)
    else:
        raise ValueError(case)
    P = [dW(W, l, k) for k in range(3)]
    return l, P
