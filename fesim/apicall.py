"""Calling felupe's public callables the way users do: sometimes by keyword, sometimes
positionally in the documented order, sometimes with the documented default written out.

The documented parameter order is frozen in data/api_signatures.json (taken once from the pinned
tree) - positional calls follow THAT order, never the live signature, so a change that reorders
or renames parameters shows up as a changed result.
"""
import json
import os

from .kernel import pick

_TABLE = json.load(open(os.path.join(os.path.dirname(os.path.abspath(__file__)), "data", "api_signatures.json")))["api"]

STYLES = ("keyword", "positional", "mixed", "explicit-defaults")


def call(name, fn, seed, *args, style=None, **kwargs):
    """fn(*args, **kwargs) in a calling style chosen per (seed, name). `args` are the leading
    required arguments (always positional), `kwargs` the rest by documented name."""
    params = _TABLE.get(name)
    if params is None:
        return fn(*args, **kwargs)
    style = style or STYLES[pick(seed, "call-style:" + name, len(STYLES))]
    rest = params[len(args) :]
    unknown = [k for k in kwargs if k not in {p["name"] for p in rest}]
    if style == "keyword" or unknown:
        return fn(*args, **kwargs)
    kw = dict(kwargs)
    if style == "explicit-defaults":
        # the documented default written out for every omitted parameter
        for p in rest:
            if p["name"] not in kw and "default" in p and p["kind"] in ("POSITIONAL_OR_KEYWORD", "KEYWORD_ONLY"):
                kw[p["name"]] = tuple(p["default"]) if p.get("tuple") else p["default"]
        return fn(*args, **kw)
    # positional prefix in the documented order (gaps are filled with the documented default)
    given = [i for i, p in enumerate(rest) if p["name"] in kw and p["kind"] == "POSITIONAL_OR_KEYWORD"]
    if not given:
        return fn(*args, **kw)
    last = max(given)
    if style == "mixed":
        last = given[len(given) // 2]
    pos = []
    for p in rest[: last + 1]:
        if p["kind"] != "POSITIONAL_OR_KEYWORD":
            break
        if p["name"] in kw:
            pos.append(kw.pop(p["name"]))
        elif "default" in p:
            pos.append(tuple(p["default"]) if p.get("tuple") else p["default"])
        else:
            break  # a default that cannot be written down (callable): stop the positional prefix here
    return fn(*args, *pos, **kw)
