"""Worker interpreter: reads JSON requests on stdin, answers on the original stdout.

fd 1 is re-pointed to /dev/null after the protocol channel has been duplicated, so that
nothing felupe, HDF5 or a C library prints can corrupt the protocol.
"""
import faulthandler
import importlib
import io
import json
import os
import shutil
import sys
import tempfile
import traceback
import warnings


def main():
    proto = os.fdopen(os.dup(1), "w", buffering=1)
    devnull = os.open(os.devnull, os.O_WRONLY)
    os.dup2(devnull, 1)
    scratch_root = sys.argv[1] if len(sys.argv) > 1 else None
    own_root = False
    if scratch_root is None:
        scratch_root = tempfile.mkdtemp(prefix="fesim-w-")
        own_root = True
    os.makedirs(scratch_root, exist_ok=True)

    import felupe  # noqa: F401  (asserted to come from /repo/src)

    src = os.path.realpath(os.environ.get("FESIM_REPO_SRC", "/repo/src"))
    assert os.path.realpath(felupe.__file__).startswith(src + "/"), (felupe.__file__, src)
    warnings.simplefilter("ignore")
    try:  # progress bars (verbose=True) must not start a monitor thread or read the terminal
        import tqdm

        tqdm.tqdm.monitor_interval = 0
    except Exception:
        pass

    from . import kernel

    try:
        for line in sys.stdin:
            line = line.strip()
            if not line:
                continue
            req = json.loads(line)
            res = execute(req, scratch_root, kernel)
            proto.write(json.dumps(kernel.jsonable(res)) + "\n")
            proto.flush()
    finally:
        if own_root:
            shutil.rmtree(scratch_root, ignore_errors=True)


def execute(req, scratch_root, kernel):
    prop = req["prop"]
    doc = req["doc"]
    cap = float(req.get("wall_cap", 60))
    mod = importlib.import_module(f"fesim.props.{req.get('module', prop)}")
    home = os.getcwd()
    cwd = tempfile.mkdtemp(prefix="run-", dir=scratch_root)
    os.chdir(cwd)
    faulthandler.dump_traceback_later(cap, exit=True)
    real_stdout = sys.stdout
    sys.stdout = io.StringIO()
    log = kernel.EventLog()
    res = {"outcome": "pass"}
    try:
        try:
            extra = mod.run(doc, log, **req.get("opts", {}))
            if extra:
                res.update(extra)
        except kernel.Violation as v:
            res.update(
                outcome="violation",
                prop=v.prop,
                monitor=v.monitor,
                detail=str(v.detail)[:2000],
                site=v.site,
                fault=v.fault,
            )
        except kernel.Discard as d:
            res.update(outcome="discard", reason=d.reason)
        except kernel.Misbehaviour as m:
            res.update(outcome="violation", prop=prop, monitor=m.monitor, detail=m.detail, site=m.site, fault=m.fault)
        except kernel.Unexpected as u:
            res.update(outcome="violation", prop=prop, monitor="undocumented-exception", detail=f"in a fault-free run felupe raised {u} (at {u.where}) - neither a result nor Newton's documented failure", site=u.where, fault=None)
        except BaseException as e:  # harness error: never a violation, never a pass
            if isinstance(e, (SystemExit,)):
                raise
            res.update(
                outcome="harness_error",
                detail=f"{type(e).__name__}: {str(e)[-1500:]}",
                traceback=traceback.format_exc()[-4000:],
            )
    finally:
        faulthandler.cancel_dump_traceback_later()
        sys.stdout = real_stdout
        os.chdir(home)
        shutil.rmtree(cwd, ignore_errors=True)
    res["digest"] = log.digest()
    res["nevents"] = log.n
    res["counters"] = log.counters
    res["log_head"] = log.head
    return res


if __name__ == "__main__":
    main()
