"""Batch runner: N fresh worker interpreters (never fork: importing felupe starts the einsumt
thread pool), JSON-lines protocol over pipes, per-run wall cap enforced inside the worker
(faulthandler kills it), dead-worker detection and restart in the parent.
"""
import json
import os
import queue
import subprocess
import sys
import threading
import time

HERE = os.path.dirname(os.path.dirname(os.path.abspath(__file__)))
PY = "/venv/bin/python"


def worker_env(hashseed="0"):
    env = dict(os.environ)
    env.update(
        PYTHONHASHSEED=str(hashseed),
        PYTHONDONTWRITEBYTECODE="1",
        OPENBLAS_NUM_THREADS="1",
        OMP_NUM_THREADS="1",
        MKL_NUM_THREADS="1",
        NUMEXPR_NUM_THREADS="1",
        JAX_PLATFORMS="cpu",
        XLA_FLAGS="--xla_cpu_multi_thread_eigen=false intra_op_parallelism_threads=1",
        FELUPE_VERBOSE="false",
        MPLBACKEND="Agg",
        PYTHONPATH=os.environ.get("FESIM_REPO_SRC", "/repo/src") + os.pathsep + HERE,
        HDF5_USE_FILE_LOCKING="FALSE",
    )
    env.pop("FELUPE_VERIF", None)
    return env


class Worker:
    def __init__(self, hashseed="0", scratch=None):
        self.hashseed = hashseed
        self.scratch = scratch
        self.start()

    def start(self):
        args = [PY, "-m", "fesim.worker"]
        if self.scratch:
            args.append(self.scratch)
        self.p = subprocess.Popen(
            args,
            stdin=subprocess.PIPE,
            stdout=subprocess.PIPE,
            stderr=subprocess.PIPE,
            env=worker_env(self.hashseed),
            cwd=HERE,
            text=True,
            bufsize=1,
        )
        self._err = []
        t = threading.Thread(target=self._drain, args=(self.p,), daemon=True)
        t.start()

    def _drain(self, p):
        for line in p.stderr:
            self._err.append(line)
            if len(self._err) > 200:
                del self._err[:100]

    def request(self, req):
        try:
            self.p.stdin.write(json.dumps(req) + "\n")
            self.p.stdin.flush()
            line = self.p.stdout.readline()
        except (BrokenPipeError, OSError):
            line = ""
        if not line:
            rc = self.p.poll()
            if rc is None:
                try:
                    rc = self.p.wait(timeout=5)
                except Exception:
                    self.p.kill()
                    rc = "killed"
            time.sleep(0.05)
            err = "".join(self._err[-30:])
            self.start()
            return {
                "outcome": "harness_error",
                "detail": f"worker died rc={rc}",
                "stderr": err[-3000:],
            }
        return json.loads(line)

    def close(self):
        try:
            self.p.stdin.close()
            self.p.wait(timeout=10)
        except Exception:
            self.p.kill()


class Pool:
    """Pool of worker interpreters. map(reqs) returns results in request order."""

    def __init__(self, n=None, hashseed="0", scratch=None):
        self.n = n or min(16, os.cpu_count() or 1)
        self.workers = [Worker(hashseed, scratch) for _ in range(self.n)]

    def map(self, reqs, on_result=None, stop=None):
        reqs = list(reqs)
        out = [None] * len(reqs)
        q = queue.Queue()
        for i, r in enumerate(reqs):
            q.put((i, r))
        lock = threading.Lock()

        def loop(w):
            while True:
                if stop is not None and stop():
                    return
                try:
                    i, r = q.get_nowait()
                except queue.Empty:
                    return
                res = w.request(r)
                out[i] = res
                if on_result is not None:
                    with lock:
                        on_result(i, r, res)

        ts = [threading.Thread(target=loop, args=(w,)) for w in self.workers]
        for t in ts:
            t.start()
        for t in ts:
            t.join()
        return out

    def stream(self, make_req, stop, limit):
        """Keep all workers busy: request k is produced by make_req(k) when a worker becomes
        free, until stop() is true or `limit` requests have been issued. Returns the list of
        (k, request, result) sorted by k. Which k are executed depends on wall time, what each
        of them does is decided by k alone."""
        out = []
        lock = threading.Lock()
        state = {"k": 0}

        def loop(widx, w):
            seq = 0
            while True:
                with lock:
                    if stop() or state["k"] >= limit:
                        return
                    k = state["k"]
                    state["k"] += 1
                    try:
                        req = make_req(k)
                    except BaseException as e:  # a generator bug is a harness error, never a silent stop
                        import traceback

                        out.append((k, {"doc": {"generator_failed": k}}, {"outcome": "harness_error", "detail": f"scenario generator raised {type(e).__name__}: {e}", "traceback": traceback.format_exc()[-3000:], "_worker": widx, "_wseq": seq}))
                        state["gen_errors"] = state.get("gen_errors", 0) + 1
                        if state["gen_errors"] > 20:
                            state["k"] = limit
                        continue
                res = w.request(req)
                # which interpreter ran it and as its how-manyeth run: the process history of a run
                # (needed to replay violations caused by process-global state left by earlier runs)
                if res.get("outcome") == "harness_error" and "worker died" in str(res.get("detail")):
                    seq = -1  # a new interpreter was started
                res["_worker"] = widx
                res["_wseq"] = seq
                seq += 1
                with lock:
                    out.append((k, req, res))

        ts = [threading.Thread(target=loop, args=(i, w)) for i, w in enumerate(self.workers)]
        for t in ts:
            t.start()
        for t in ts:
            t.join()
        out.sort(key=lambda x: x[0])
        return out

    def close(self):
        for w in self.workers:
            w.close()

    def __enter__(self):
        return self

    def __exit__(self, *a):
        self.close()


def run_fresh_sequence(reqs, hashseed="0", scratch=None):
    """Run several requests one after the other in ONE brand-new interpreter; returns all results."""
    w = Worker(hashseed, scratch)
    try:
        return [w.request(r) for r in reqs]
    finally:
        w.close()


def run_fresh(req, hashseed="0", scratch=None):
    """Run one request in a brand-new interpreter (used to confirm replays)."""
    w = Worker(hashseed, scratch)
    try:
        return w.request(req)
    finally:
        w.close()
