"""Simulated schedulers.

SimThreads  - replaces `Thread` in felupe.assembly.expression._bilinear / _linear. Real
              threads, but parked: exactly one runs at any instant and a seeded scheduler
              decides who continues at every yield point. Yield points are `sys.monitoring`
              LINE events and STORE_SUBSCR INSTRUCTION events of the `contribution` closures
              and of the weak-form callables.
SimPool     - replaces `einsumt.default_thread_pool`: `_processes` is a knob, queued jobs
              run in a seeded order, a job can be made to fail.
"""
import dis
import sys
import threading

from .kernel import HarnessError, SimWorkerError

TOOL_ID = 3
_mon = sys.monitoring
_EV = _mon.events


def nested_codes(fn, name):
    out = []
    code = fn.__code__

    def walk(c):
        for k in c.co_consts:
            if hasattr(k, "co_code"):
                if k.co_name == name:
                    out.append(k)
                walk(k)

    walk(code)
    return out


class _SimThread:
    def __init__(self, sim, target, args=(), kwargs=None):
        self.sim = sim
        self.target = target
        self.args = args
        self.kwargs = kwargs or {}
        self.tid = None
        self.done = False
        self.started = False
        self.exc = None
        self.baton = threading.Event()
        self.yields = 0

    def start(self):
        self.sim._register(self)

    def join(self, timeout=None):
        self.sim._run_until_done(self)


class SimThreads:
    """Context manager owning the thread seam of one simulated run.

    policy: 'fifo' | 'lifo' | 'rr' | 'random' | 'trace'
    """

    YIELD_CAP = 400

    def __init__(self, policy="fifo", rng=None, trace=None, extra_codes=(), instruction_events=True, log=None, yield_cap=None, inline=False):
        if yield_cap is not None:
            self.YIELD_CAP = yield_cap  # coarse pre-emption: a few yields per thread
        # inline: no pre-emption at all - every thread body runs to completion when it is picked
        # (thousands of threads: the schedule is the order of the bodies and the set of bodies that
        # have not run when a join returns)
        self.inline = inline
        self.policy = policy
        self.rng = rng
        self.replay = list(trace) if trace is not None else None
        self.trace = []
        self.batches = 0
        self.switches = 0
        self.nyields = 0
        self.threads = []
        self.exceptions = []
        self.control = threading.Event()
        self.current = None
        self.extra_codes = list(extra_codes)
        self.instruction_events = instruction_events
        self.by_ident = {}
        self.store_offsets = {}
        self.max_threads = 0
        self.log = log
        self.error = None
        self._last = None
        self.draining = False
        self._fresh = []
        self._runnable = []

    # -- installation -----------------------------------------------------------------------
    def __enter__(self):
        import felupe.assembly.expression._bilinear as B
        import felupe.assembly.expression._linear as L

        # every module of the expression package that creates threads through the name `Thread`
        self._mods = tuple(m for m in (B, L) if hasattr(m, "Thread"))
        self._saved = tuple(m.Thread for m in self._mods)
        sim = self

        def factory(target=None, args=(), kwargs=None, **kw):
            # the body of the thread is a pre-emptible region too (whatever it is called)
            fn = getattr(target, "__func__", target)
            co = getattr(fn, "__code__", None)
            if co is not None and co not in sim.codes:
                sim.codes.append(co)
                _mon.set_local_events(TOOL_ID, co, _EV.LINE)
            return _SimThread(sim, target, args, kwargs)

        for m in self._mods:
            m.Thread = factory
        codes = nested_codes(B.BilinearForm.integrate, "contribution") + nested_codes(L.LinearForm.integrate, "contribution")
        self.codes = codes + self.extra_codes
        _mon.use_tool_id(TOOL_ID, "fesim")
        _mon.register_callback(TOOL_ID, _EV.LINE, self._on_line)
        if self.instruction_events:
            _mon.register_callback(TOOL_ID, _EV.INSTRUCTION, self._on_instruction)
        for c in self.codes:
            ev = _EV.LINE
            if self.instruction_events and c in codes:
                ev |= _EV.INSTRUCTION
                self.store_offsets[c] = {i.offset for i in dis.get_instructions(c) if i.opname == "STORE_SUBSCR"}
            _mon.set_local_events(TOOL_ID, c, ev)
        return self

    def __exit__(self, *a):
        self.left_unfinished = len(self.unfinished())
        self._drain()
        for m, t in zip(self._mods, self._saved):
            m.Thread = t
        for c in self.codes:
            _mon.set_local_events(TOOL_ID, c, 0)
        _mon.register_callback(TOOL_ID, _EV.LINE, None)
        if self.instruction_events:
            _mon.register_callback(TOOL_ID, _EV.INSTRUCTION, None)
        _mon.free_tool_id(TOOL_ID)
        return False

    # -- monitoring callbacks (run in the executing thread) --------------------------------------
    def _on_line(self, code, line):
        t = self.by_ident.get(threading.get_ident())
        if t is not None:
            self._yield(t)

    def _on_instruction(self, code, offset):
        t = self.by_ident.get(threading.get_ident())
        if t is not None and offset in self.store_offsets.get(code, ()):
            self._yield(t)

    def _yield(self, t):
        if t.yields >= self.YIELD_CAP or self.draining:
            return
        t.yields += 1
        self.nyields += 1
        t.baton.clear()
        self.control.set()
        t.baton.wait()

    # -- thread bodies ---------------------------------------------------------------------------
    def _register(self, t):
        t.tid = len(self.threads)
        t.started = True
        self.threads.append(t)
        self._fresh.append(t)
        self._runnable.append(t)

    def _body(self, t):
        self.by_ident[threading.get_ident()] = t
        t.baton.wait()
        try:
            t.target(*t.args, **t.kwargs)
        except BaseException as e:  # CPython: threading.excepthook prints and swallows
            t.exc = e
            self.exceptions.append((t.tid, e))
        finally:
            t.done = True
            self.by_ident.pop(threading.get_ident(), None)
            self.control.set()

    def _pick(self, runnable, last):
        if self.replay is not None:
            if not self.replay:
                return runnable[0]
            tid = self.replay.pop(0)
            for t in runnable:
                if t.tid == tid:
                    return t
            return runnable[0]
        p = self.policy
        if p == "fifo":
            return runnable[0]
        if p == "lifo":
            return runnable[-1]
        if p == "rr":
            if last is None:
                return runnable[0]
            for t in runnable:
                if t.tid > last.tid:
                    return t
            return runnable[0]
        if p == "random":
            # biased: keep running the same thread with probability 0.5 to get long segments too
            if last is not None and not last.done and self.rng.random() < 0.5:
                return last
            return self.rng.choice(runnable)
        raise ValueError(p)

    def _run_until_done(self, waiting_for):
        """join(): schedule started threads until the joined one is done. Which thread runs
        is the policy's choice among *all* started, unfinished threads - as with real
        threads, the others may or may not make progress meanwhile; a thread nobody joins
        may still be unfinished when the caller reads the shared array."""
        if not waiting_for.started:
            raise RuntimeError("cannot join thread before it is started")
        if self.inline:
            return self._run_inline(waiting_for)
        fresh = self._fresh
        self._fresh = []
        if fresh:
            self.batches += 1
            self.max_threads = max(self.max_threads, len(fresh))
            for t in fresh:
                t._real = threading.Thread(target=self._body, args=(t,), daemon=True)
                t._real.start()
        last = self._last
        while not waiting_for.done:
            # (kept incrementally: thousands of threads make a scan per decision quadratic)
            runnable = self._runnable
            t = self._pick(runnable, last)
            if last is not None and t is not last:
                self.switches += 1
            self.trace.append(t.tid)
            self.control.clear()
            t.baton.set()
            if not self.control.wait(timeout=60):
                self.error = "scheduler timeout"
                raise HarnessError("simulated thread did not yield within 60 s")
            if t.done:
                runnable.remove(t)
            last = t
        self._last = last

    def _run_inline(self, waiting_for):
        if self._fresh:
            self.batches += 1
            self.max_threads = max(self.max_threads, len(self._runnable))
            self._fresh = []
        last = self._last
        runnable = self._runnable
        while not waiting_for.done:
            t = self._pick(runnable, last)
            if last is not None and t is not last:
                self.switches += 1
            self.trace.append(t.tid)
            self._body_inline(t)
            runnable.remove(t)
            last = t
        self._last = last

    def _body_inline(self, t):
        try:
            t.target(*t.args, **t.kwargs)
        except BaseException as e:
            t.exc = e
            self.exceptions.append((t.tid, e))
        finally:
            t.done = True

    def unfinished(self):
        return [t for t in self.threads if t.started and not t.done]

    def _drain(self):
        """Let threads nobody joined run to completion (after the observed call returned)."""
        self.draining = True
        if self.inline:
            for t in list(self._runnable):
                self._body_inline(t)
            self._runnable = []
            return
        for t in self.threads:
            if t.started and not t.done and getattr(t, "_real", None) is not None:
                t.baton.set()
        for t in self.threads:
            r = getattr(t, "_real", None)
            if r is not None:
                r.join(timeout=10)


# ----------------------------------------------------------------------------------------
class _Job:
    def __init__(self, pool, func, args, kwds, n):
        self.pool = pool
        self.func = func
        self.args = args
        self.kwds = kwds or {}
        self.n = n
        self.ran = False
        self.result = None
        self.exc = None

    def run(self):
        if self.ran:
            return
        self.ran = True
        self.pool.order.append(self.n)
        if self.n in self.pool.fail_jobs:
            self.pool.fired.append(self.n)
            self.exc = SimWorkerError("injected: allocation failed in pool worker")
            return
        try:
            self.result = self.func(*self.args, **self.kwds)
        except BaseException as e:
            self.exc = e

    def get(self, timeout=None):
        self.pool._before_get(self)
        if self.exc is not None:
            raise self.exc
        return self.result


class SimPool:
    """Stands in for multiprocessing.pool.ThreadPool as used by einsumt."""

    def __init__(self, processes=4, rng=None, order="shuffle", fail_jobs=()):
        self._processes = processes
        self.rng = rng
        self.mode = order  # 'shuffle' | 'lazy' | 'reverse' | 'fifo'
        self.fail_jobs = set(fail_jobs)
        self.fired = []
        self.pending = []
        self.njobs = 0
        self.order = []
        self.batches = 0
        self.configs = set()

    def apply_async(self, func, args=(), kwds=None, callback=None, error_callback=None):
        j = _Job(self, func, args, kwds, self.njobs)
        self.njobs += 1
        self.pending.append(j)
        return j

    def _before_get(self, job):
        if job.ran:
            return
        if self.mode == "lazy":
            job.run()
            self.pending = [j for j in self.pending if j is not job]
            return
        batch = self.pending
        self.pending = []
        self.batches += 1
        if self.mode == "shuffle" and self.rng is not None:
            batch = list(batch)
            self.rng.shuffle(batch)
        elif self.mode == "reverse":
            batch = batch[::-1]
        for j in batch:
            j.run()

    def __enter__(self):
        import einsumt as _e

        self._mod = _e
        self._saved = _e.default_thread_pool
        _e.default_thread_pool = self
        return self

    def __exit__(self, *a):
        self._mod.default_thread_pool = self._saved
        return False
