import copy
"""Scenario generators: seed -> explicit JSON scenario document (swarm style: everything
varies per run, everything small). Generation happens in the parent and never touches
felupe; validity that needs felupe (dV > 0 after perturbation) is decided in the worker
and reported as DISCARD(invalid-mesh).
"""
from .kernel import Streams
from .kernel import pick as kpick


def rfloat(r, lo, hi, nd=4):
    return round(r.uniform(lo, hi), nd)


# ----------------------------------------------------------------------------------------
RENUMBER = True


def gen_mesh(r, dim=None, allow=("linear", "quadratic", "full", "simplex", "simplex2"), max_cells=8, perturb=True):
    dim = dim or r.choice([2, 3, 3])
    fam = r.choice(list(allow))
    if dim == 3:
        if fam in ("full",):
            n = r.choice([(2, 2, 2), (3, 2, 2)])
        elif fam in ("simplex", "simplex2"):
            n = r.choice([(2, 2, 2), (3, 2, 2), (2, 3, 2)])
        else:
            n = r.choice([(2, 2, 2), (3, 2, 2), (2, 3, 2), (3, 3, 2), (3, 3, 3), (2, 2, 4)])
        while (n[0] - 1) * (n[1] - 1) * (n[2] - 1) > max_cells:
            n = (2, 2, 2)
        b = [rfloat(r, 0.6, 1.6, 2) for _ in range(3)] if r.random() < 0.5 else [1.0, 1.0, 1.0]
        m = {"gen": "Cube", "n": list(n), "a": [0.0, 0.0, 0.0], "b": b}
    else:
        n = r.choice([(2, 2), (3, 2), (3, 3), (4, 3), (2, 4), (4, 4)])
        while (n[0] - 1) * (n[1] - 1) > max_cells:
            n = (3, 2)
        b = [rfloat(r, 0.6, 1.6, 2) for _ in range(2)] if r.random() < 0.5 else [1.0, 1.0]
        m = {"gen": "Rectangle", "n": list(n), "a": [0.0, 0.0], "b": b}
    conv = {"linear": None, "quadratic": "quadratic", "full": "triquadratic" if dim == 3 else "biquadratic", "simplex": "triangulate", "simplex2": "triangulate-quadratic"}[fam]
    if conv:
        m["convert"] = conv
    if perturb and r.random() < 0.6:
        m["perturb"] = {"seed": r.randrange(1 << 30), "amp": r.choice([0.05, 0.1, 0.15, 0.2, 0.25])}
    if RENUMBER and r.random() < 0.15:
        m["roll"] = True  # cells start at another corner
    if RENUMBER and r.random() < 0.3:
        # valid but unusual numbering: points and cells in shuffled order
        m["renumber"] = {"seed": r.randrange(1 << 30), "cells": r.random() < 0.7}
    return m


def gen_hyper(r, history=False, compressible_ok=True, ad=True):
    """A hyperelastic (or, with history=True, history-dependent) material spec."""
    mu = rfloat(r, 0.5, 2.0)
    choices = ["NeoHooke", "NeoHooke", "NeoHookeCompressible"]
    if ad:
        choices += ["AD:neo_hooke", "AD:mooney_rivlin", "AD:yeoh", "AD:ogden", "AD:saint_venant_kirchhoff"]
    if history:
        choices = ["OgdenRoxburgh", "OgdenRoxburgh", "Plastic", "Visco"] + (["OgdenRoxburghAD"] if ad else [])
    name = r.choice(choices)
    bulk = round(mu * r.choice([2.0, 5.0, 20.0, 50.0]), 4)
    if name == "NeoHooke":
        p = {"mu": mu, "bulk": bulk}
    elif name == "NeoHookeCompressible":
        p = {"mu": mu, "lmbda": round(bulk - 2 * mu / 3, 4) if bulk > mu else mu}
    elif name == "AD:neo_hooke":
        p = {"mu": mu, "bulk": bulk}
    elif name == "AD:mooney_rivlin":
        p = {"C10": round(mu / 3, 4), "C01": round(mu / 6, 4), "bulk": bulk}
    elif name == "AD:yeoh":
        p = {"C10": round(mu / 2, 4), "C20": rfloat(r, -0.05, 0.05), "C30": rfloat(r, 0.0, 0.05), "bulk": bulk}
    elif name == "AD:ogden":
        p = {"mu": [mu, rfloat(r, 0.05, 0.3)], "alpha": [rfloat(r, 1.5, 2.5), rfloat(r, -2.5, -1.5)], "bulk": bulk}
    elif name == "AD:saint_venant_kirchhoff":
        p = {"mu": mu, "lmbda": round(bulk, 4)}
    elif name in ("OgdenRoxburgh", "OgdenRoxburghAD"):
        p = {"mu": mu, "r": rfloat(r, 1.5, 4.0), "m": rfloat(r, 0.5, 2.0), "beta": rfloat(r, 0.0, 0.3), "bulk": bulk}
    elif name == "Plastic":
        p = {"lmbda": round(2 * mu, 4), "mu": mu, "sy": rfloat(r, 0.02, 0.08), "K": rfloat(r, 0.05, 0.5)}
    elif name == "Visco":
        p = {"mu": mu, "bulk": bulk, "mu_v": rfloat(r, 0.2, 1.0), "eta": rfloat(r, 0.5, 5.0), "dtime": rfloat(r, 0.1, 1.0)}
    return {"name": name, "p": p}


def ramp_values(r, n, top, shape=None):
    shape = shape or r.choice(["mono", "mono", "cyclic", "repeat", "nonuniform", "updown", "creep"])
    if n == 1:
        return [top]
    if shape == "creep":
        # the full value at once, then increments of a few millionths of it (holding phases)
        return [round(float(top * (1 + 3e-6 * i)), 12) for i in range(n)]
    if shape == "mono":
        v = [top * (i + 1) / n for i in range(n)]
    elif shape == "nonuniform":
        cuts = sorted(r.uniform(0.05, 1) for _ in range(n - 1)) + [1.0]
        v = [top * c for c in cuts]
    elif shape == "repeat":
        v = [top * (i + 1) / n for i in range(n)]
        k = r.randrange(1, n)
        v[k] = v[k - 1]
    elif shape == "cyclic":
        h = max(1, n // 2)
        up = [top * (i + 1) / h for i in range(h)]
        v = (up + up[-2::-1] + [0.0] + up)[:n]
        while len(v) < n:
            v.append(v[-1])
    elif shape == "updown":
        h = (n + 1) // 2
        up = [top * (i + 1) / h for i in range(h)]
        v = (up + [u * 0.5 for u in up[::-1]])[:n]
    return [round(float(x), 6) for x in v]


def gen_job(seed, profile="general"):
    """One job scenario. `profile` biases the distribution towards a property's code."""
    S = Streams(seed)
    r = S["gen"]
    doc = {"kind": "job", "seed": seed, "profile": profile}
    dim = r.choice([2, 3, 3])
    history = profile in ("history",) or (profile in ("general", "tangent") and r.random() < 0.25)
    want_mixed = r.random() < 0.2 and not history
    want_nearly = r.random() < 0.2 and not history and not want_mixed
    allow = ("linear", "linear", "quadratic", "full", "simplex", "simplex2")
    if want_mixed:
        allow = ("linear", "linear", "quadratic", "full", "simplex2")
    if want_nearly:
        allow = ("linear", "linear", "quadratic")
    mesh = gen_mesh(r, dim=dim, allow=allow, max_cells=8 if dim == 3 else 9)
    doc["mesh"] = mesh
    if dim == 3:
        fkind = "Mixed3" if want_mixed else "Field"
    else:
        fkind = "Mixed3" if want_mixed else r.choice(["PlaneStrain", "PlaneStrain", "Axi"])
    doc["field"] = {"kind": fkind}
    if want_mixed and dim == 2:
        doc["field"]["planestrain"] = True
    items = []
    if want_mixed:
        mu = rfloat(r, 0.5, 2.0)
        um = {"name": r.choice(["ThreeField", "NearlyIncompressible"]), "p": {"mu": mu, "bulk": round(mu * r.choice([20.0, 100.0, 1000.0]), 3)}}
        items.append({"type": "SolidBody", "umat": um})
    elif want_nearly:
        mu = rfloat(r, 0.5, 2.0)
        items.append({"type": "SolidBodyNearlyIncompressible", "umat": {"name": "NeoHooke", "p": {"mu": mu}}, "bulk": round(mu * r.choice([20.0, 100.0, 1000.0, 5000.0]), 3)})
    else:
        if profile == "linear" or (profile == "general" and r.random() < 0.12):
            um = {"name": "LinearElastic", "p": {"E": rfloat(r, 0.5, 10.0), "nu": rfloat(r, 0.0, 0.4)}}
        else:
            um = gen_hyper(r, history=history)
        if um["name"] == "Plastic" and dim == 2:
            um["p"]["dim"] = 2 if fkind != "PlaneStrain" else 3
            if fkind == "Axi":
                um = gen_hyper(r, history=False)
        it = {"type": "SolidBody", "umat": um}
        if r.random() < 0.15:
            it["multiplier"] = r.choice([0.5, 2.0])
        if um["name"] == "Plastic" and dim == 3 and fkind == "Field" and kpick(seed, "plastic-in-condensed-body", 3) == 0:
            # the strain-based history material inside the nearly-incompressible body (which adds its
            # pressure term to the stress the material returns)
            it = {"type": "SolidBodyNearlyIncompressible", "umat": um, "bulk": round(um["p"]["lmbda"] * 10.0, 6)}
        items.append(it)
        if r.random() < 0.12 and um["name"] not in ("LinearElastic",):
            # a second, superposed body on the same field (with or without its own multiplier)
            it2 = {"type": "SolidBody", "umat": {"name": "NeoHookeCompressible", "p": {"mu": rfloat(r, 0.2, 1.0), "lmbda": rfloat(r, 0.5, 2.0)}}}
            if r.random() < 0.4:
                it2["multiplier"] = r.choice([0.25, 3.0, 0.0])  # 0.0: a switched-off body
            items.append(it2)
            if r.random() < 0.5:
                items.reverse()
    doc["items"] = items
    linear_types = mesh.get("convert") in (None,)
    # loads ---------------------------------------------------------------------------------
    nsteps = r.choice([1, 1, 2])
    case = r.choice(["uniaxial", "uniaxial", "biaxial", "shear", "custom", "patch"])
    if profile == "tangent":
        case = r.choice(["uniaxial", "uniaxial", "custom", "biaxial", "shear", "patch"])
    if fkind == "Axi" and case in ("biaxial", "shear", "patch"):
        case = "uniaxial"
    if dim == 2 and case == "biaxial" and fkind == "Mixed3":
        case = "uniaxial"
    bc = {"case": case}
    if case == "patch" and kpick(seed, "patch-init", 2):
        bc["init"] = "scalar"  # the boundary is created with a scalar value, the ramp hands it arrays
    if case == "uniaxial":
        bc["clamped"] = r.random() < 0.4
        bc["sym"] = True
        if profile != "tangent" and fkind != "Axi":
            bc["axis"] = r.randrange(dim)
    if case == "biaxial" and dim == 3 and r.random() < 0.5:
        import itertools

        bc["axes"] = list(r.choice(list(itertools.permutations(range(3), 2))))
    top = r.choice([0.05, 0.1, 0.2, 0.3]) * (1 if r.random() < 0.75 else -0.5)
    if history and any(i.get("umat", {}).get("name") == "Plastic" for i in items):
        top = r.choice([0.02, 0.05, 0.08])
    extra = []
    if r.random() < 0.35:
        kind = r.choice(["PointLoad", "SolidBodyGravity", "SolidBodyForce"] + (["SolidBodyPressure"] if mesh.get("convert") in (None, "quadratic", "triquadratic", "biquadratic") and fkind != "Mixed3" else []))
        fd = 2 if dim == 2 else 3
        if kind == "PointLoad":
            extra.append({"type": "PointLoad", "points": {"axis": 0, "at": "max", "first": 2}, "values": [0.0] * fd, "_top": [rfloat(r, -0.02, 0.02) for _ in range(fd)]})
            if fkind == "Axi":
                extra[-1]["axisymmetric"] = r.random() < 0.6  # ring load: 2 pi r times the value
            if r.random() < 0.5:
                # values per point (one row per listed point), points listed in descending order
                extra[-1]["order"] = "reversed"
                tv = extra[-1]["_top"]
                extra[-1]["values"] = [[0.0] * fd, [0.0] * fd]
                extra[-1]["_top"] = [tv, [round(-0.5 * c, 6) for c in tv]]
        elif kind == "SolidBodyGravity":
            extra.append({"type": "SolidBodyGravity", "gravity": [0.0] * fd, "density": rfloat(r, 0.5, 2.0), "_top": [rfloat(r, -0.1, 0.1) for _ in range(fd)]})
        elif kind == "SolidBodyForce":
            extra.append({"type": "SolidBodyForce", "values": [0.0] * fd, "scale": rfloat(r, 0.5, 2.0), "_top": [rfloat(r, -0.1, 0.1) for _ in range(fd)]})
        else:
            extra.append({"type": "SolidBodyPressure", "face": {"mask_axis": 1, "mask_value": "max"}, "pressure": 0.0, "_top": rfloat(r, -0.1, 0.1)})
    if profile == "tangent" or (profile == "general" and r.random() < 0.25):
        # richer item mix (always for the tangent check): constraints, contact, Cauchy-stress load, form items
        fd = 2 if dim == 2 else 3
        quadhex = mesh.get("convert") in (None, "quadratic", "triquadratic", "biquadratic")
        pick = r.choice(["mpc", "contact", "cauchy", "form", "pressure", "none"])
        if pick in ("mpc", "contact") and case in ("uniaxial", "custom") and fkind != "Axi":
            bb = mesh["b"]
            gap = r.choice([0.01, 0.02, 0.05]) if pick == "contact" else 0.2
            if pick == "contact" and kpick(seed, "zero-gap", 4) == 0:
                gap = 0.0  # the contact points start exactly on the wall
            mesh["extra_point"] = [0.5 * bb[0], bb[1] + gap] + ([0.5 * bb[2]] if dim == 3 else [])
            if pick == "mpc":
                extra.append({"type": "MultiPointConstraint", "points": {"axis": 1, "at": "max"}, "centerpoint": {"at": "extra"}, "skip": [r.random() < 0.3 for _ in range(dim)], "multiplier": r.choice([1.0, 10.0, 100.0]), "negative_index": r.random() < 0.5})
                if kpick(seed, "mpc-face", 3) == 0:
                    # the face with the lowest point numbers (the same numbers whatever the height of the
                    # model), and an earlier model of another height in the same process (height study)
                    extra[-1]["points"] = {"axis": dim - 1, "at": "min"}
                    doc["height_study"] = True
                if not any(extra[-1]["skip"]) and r.random() < 0.6:
                    extra[-1]["free_centerpoint"] = True  # every axis coupled: the centre point may float
                if all(extra[-1]["skip"]):
                    extra[-1]["skip"][1] = False
            else:
                extra.append({"type": "MultiPointContact", "points": {"axis": 1, "at": "max"}, "centerpoint": {"at": "extra"}, "skip": [True, False] + ([True] if dim == 3 else []), "multiplier": r.choice([10.0, 100.0, 1000.0]), "negative_index": r.random() < 0.5})
                top = -abs(top) * 2 if r.random() < 0.8 else top
        elif pick == "cauchy" and quadhex and fkind in ("Field", "PlaneStrain"):
            sg = [[rfloat(r, -0.1, 0.1) for _ in range(3)] for _ in range(3)]
            sg = [[round(0.5 * (sg[i][j] + sg[j][i]), 4) for j in range(3)] for i in range(3)]
            extra.append({"type": "SolidBodyCauchyStress", "face": {"mask_axis": 1, "mask_value": "max"}, "stress": sg})
        elif pick == "form" and fkind == "Field" and not mesh.get("convert"):
            extra.append({"type": "FormItem", "C_seed": r.randrange(1 << 30), "mu": rfloat(r, 0.2, 1.0), "lmbda": rfloat(r, 0.2, 1.0), "scale": 1.0, "sym": r.random() < 0.3, "_top": rfloat(r, 0.5, 1.5)})
            if not extra[-1]["sym"] and r.random() < 0.5:
                extra[-1]["nonsym"] = True  # a non-conservative (not major-symmetric) coefficient tensor
        elif pick == "pressure" and quadhex and fkind != "Mixed3":
            extra.append({"type": "SolidBodyPressure", "face": {"mask_axis": 1, "mask_value": "max"}, "pressure": 0.0, "_top": rfloat(r, -0.3, 0.3)})
    if fkind == "Mixed3":
        extra = [e for e in extra if e["type"] in ("PointLoad", "SolidBodyGravity", "SolidBodyForce", "MultiPointConstraint", "MultiPointContact")]
    if mesh.get("extra_point") and not any(e["type"].startswith("MultiPoint") for e in extra):
        mesh.pop("extra_point")
    if not mesh.get("extra_point") and r.random() < 0.08 and fkind != "Mixed3":
        # a point that belongs to no cell, strictly inside the bounding box (its unknowns are
        # prescribed automatically)
        mesh["orphan_point"] = [round(c * f, 4) for c, f in zip(mesh["b"], (0.37, 0.41, 0.53))]
    items.extend(extra)
    if case == "custom":
        lst = [{"name": "fix", "fx": "min", "value": 0.0}]
        lst.append({"name": "move", "fx": "max", "skip": [False] + [True] * (1 if dim == 2 else 2) if r.random() < 0.5 else [False] * dim, "value": 0.0, "ramped": True})
        if r.random() < 0.3:
            lst.append({"name": "overlap", "fx": "max", "fy": "max", "mode": "and", "skip": [True, False] + ([True] if dim == 3 else []), "value": 0.0})
        elif r.random() < 0.3:
            # an edge of the moved face is listed again with the same (ramped) value: the same
            # unknowns are selected by two boundaries
            lst.append({"name": "guide", "fx": "max", "fy": "max", "mode": "and", "skip": list(lst[1]["skip"]), "value": 0.0, "ramped": True})
        bc["list"] = lst
    if fkind == "Mixed3" and r.random() < 0.5:
        # a boundary on a dual field (pressure or volume ratio of one cell) with a non-zero value
        fld = r.choice([1, 2])
        val = rfloat(r, -0.05, 0.05) if fld == 1 else rfloat(r, 0.97, 1.03)
        bc["extra"] = [{"name": "dualfix", "field": fld, "points": [0], "value": val}]
    doc["bc"] = bc
    steps = []
    for j in range(nsteps):
        n = r.choice([1, 2, 3, 4, 5, 6])
        if j == 0 and kpick(seed, "long-history", 10) == 0:
            n = (11, 13, 17)[kpick(seed, "long-history-n", 3)]  # more substeps than fingers
        ramp = []
        t = top if j == 0 else top * r.choice([0.5, 1.0, -0.3, 1.2])
        base = 0.0 if j == 0 else steps[-1]["_end"]
        vals = ramp_values(r, n, t)
        if j > 0:
            vals = [round(base + (v - 0.0) * 0.5, 6) for v in vals] if r.random() < 0.5 else vals
        if case == "patch":
            H = [[rfloat(r, -1, 1) for _ in range(dim)] for _ in range(dim)]
            ramp.append({"target": "bc:patch", "values": [abs(v) for v in vals], "H": H})
        elif case == "biaxial":
            ramp.append({"target": "bc:move", "values": vals})
            ramp.append({"target": "bc:move2", "values": [round(v * 0.5, 6) for v in vals]})
        else:
            mv = vals
            if case == "custom" and not any(bc["list"][1]["skip"]) and kpick(doc["seed"], "vector-ramp", 2) == 0:
                # vector-valued ramp (one row per substep): push / pull with a little shear
                mv = [[v, round(0.3 * v, 6), 0.0][:dim] for v in vals]
            ramp.append({"target": "bc:move", "values": mv})
            if any(b_.get("name") == "guide" for b_ in bc.get("list", [])):
                ramp.append({"target": "bc:guide", "values": copy.deepcopy(mv)})
        for k, it in enumerate(items):
            if "_top" in it:
                tv = it["_top"]
                if kpick(seed, f"item-creep:{j}:{k}", 4) == 0 and n > 1:
                    # the load at its full value in the first substep, then tiny increments
                    fac = [1 + 3e-6 * i for i in range(n)]
                    scl = lambda c, i: round(c * fac[i], 12)
                elif kpick(seed, f"item-cycle:{j}:{k}", 5) == 0 and n > 1:
                    # load cycle: full value, exactly zero, reversed, exactly zero again, ...
                    cyc = (1.0, 0.0, -1.0, 0.0, 0.5, 0.0)
                    scl = lambda c, i: round(c * cyc[i % 6], 6) + 0.0
                else:
                    scl = lambda c, i: round(c * (i + 1) / n, 6)
                if isinstance(tv, list) and isinstance(tv[0], list):
                    ramp.append({"target": f"item:{k}", "values": [[[scl(c, i) for c in row] for row in tv] for i in range(n)]})
                elif isinstance(tv, list):
                    ramp.append({"target": f"item:{k}", "values": [[scl(c, i) for c in tv] for i in range(n)]})
                else:
                    ramp.append({"target": f"item:{k}", "values": [scl(tv, i) for i in range(n)]})
        steps.append({"ramp": ramp, "_end": vals[-1]})
    if nsteps == 2 and len(items) > 1 and r.random() < 0.4:
        # the second step works on a subset of the items (the solid bodies and constraints only)
        keep = [k for k, it in enumerate(items) if it["type"].startswith("SolidBody") and it["type"] not in ("SolidBodyPressure", "SolidBodyCauchyStress", "SolidBodyForce", "SolidBodyGravity") or it["type"].startswith("MultiPoint")]
        if keep and len(keep) < len(items):
            steps[1]["items"] = keep
            steps[1]["ramp"] = [rp for rp in steps[1]["ramp"] if not rp["target"].startswith("item:") or int(rp["target"][5:]) in keep]
    for s in steps:
        s.pop("_end")
    for it in items:
        it.pop("_top", None)
    doc["steps"] = steps
    doc["newton"] = {}
    if r.random() < 0.3:
        doc["newton"]["tol"] = r.choice([1e-6, 1e-8, 1e-10, 1e-4])
    if r.random() < 0.3:
        doc["newton"]["maxiter"] = r.choice([4, 8, 12, 25])
    doc["knobs"] = {"verbose": r.choice([False, False, False, 2, 2, True]), "clock": r.choice(["normal", "skew", "jump", "backwards", "frozen"]), "clock_seed": r.randrange(1000)}
    doc["faults"] = []
    if r.random() < 0.08:
        # another model of the same kind was post-processed earlier in the process
        doc["prelude"] = [r.choice(["extrapolate", "extrapolate", "project"])]
    if kpick(seed, "manual-bc-ramp", 4) == 0 and nsteps == 1:
        # steps that ramp load items only: the caller moves the boundaries itself between the substeps
        doc["manual_bc_ramp"] = True
    if kpick(seed, "shadow-model", 4) == 0:
        # another model alive in the process that shares the material object of the first body and is
        # evaluated between the substeps of this job
        doc["shadow_model"] = True
    if kpick(seed, "region-look", 6) == 0:
        # someone looked at a region of the same template earlier in the process (plotted its
        # quadrature points scaled by their weights, copied it, inverted the scheme)
        doc["region"] = dict(doc.get("region") or {}, look=True)
    return doc


SOLVER_FAULTS = ["solver_raise", "solver_nan", "solver_inf", "solver_zero", "solver_flip", "solver_scale", "solver_stall"]


def add_faults(doc, seed, kinds=None, p_fault=0.66):
    """Draw a fault plan (DESIGN section 5). Positions are symbolic (step, substep, iter);
    a fault whose position is never reached does not fire and is reported as such."""
    S = Streams(seed)
    r = S["fault"]
    if r.random() > p_fault:
        return doc
    kinds = kinds or (SOLVER_FAULTS + ["solver_inexact", "solver_inexact", "umat_raise", "umat_nan", "callback_raise", "callback_kbint"])
    nf = r.choice([1, 1, 1, 2])
    steps = doc["steps"]
    for _ in range(nf):
        k = r.choice(kinds)
        j = r.randrange(len(steps))
        n = len(steps[j]["ramp"][0]["values"]) if steps[j].get("ramp") else 1
        # bias: first substep, last substep, first after a step boundary
        i = r.choice([0, n - 1, r.randrange(n), r.randrange(n)])
        f = {"kind": k, "step": j, "substep": i}
        if k == "solver_inexact":
            f = {"kind": k, "rel": r.choice([1e-12, 1e-9, 1e-6, 1e-4, 1e-2]), "seed": r.randrange(1000)}
        elif k.startswith("solver_") and k != "solver_stall":
            f["iter"] = r.choice([0, 0, 1, 2, 3])
            if k == "solver_scale":
                f["factor"] = r.choice([0.3, 1.7, 3.0, -0.5])
        elif k.startswith("umat_"):
            f["iter"] = r.choice([-1, 0, 1, 2])
            f["item"] = 0
            f["call"] = r.choice(["gradient", "hessian"])
        doc["faults"].append(f)
    return doc


# ----------------------------------------------------------------------------------------
# unit systems: the same scenario in other consistent units (lengths x L, stresses x S)
# ----------------------------------------------------------------------------------------
STRESS_KEYS = {
    "NeoHooke": ["mu", "bulk"],
    "NeoHookeCompressible": ["mu", "lmbda"],
    "LinearElastic": ["E"],
    "LinearElasticLargeStrain": ["E"],
    "OgdenRoxburgh": ["mu", "bulk", "m"],
    "OgdenRoxburghAD": ["mu", "bulk", "m"],
    "Plastic": ["lmbda", "mu", "sy", "K"],
    "Visco": ["mu", "bulk", "mu_v", "eta"],
    "AD:neo_hooke": ["mu", "bulk"],
    "AD:mooney_rivlin": ["C10", "C01", "bulk"],
    "AD:yeoh": ["C10", "C20", "C30", "bulk"],
    "AD:ogden": ["mu", "bulk"],
    "AD:saint_venant_kirchhoff": ["mu", "lmbda"],
    "ThreeField": ["mu", "bulk"],
    "NearlyIncompressible": ["mu", "bulk"],
    "NI": ["mu", "bulk"],
}
UNIT_SYSTEMS = [(1e-3, 1e9), (1e3, 1.0), (1e-3, 1e6), (1.0, 1e6), (1e3, 1e-3)]  # S * L^(dim-1) >= 1
UNIT_SYSTEMS_ANY = UNIT_SYSTEMS + [(1e-3, 1e-3), (1e-6, 1e3), (1.0, 1e-6)]  # also tiny forces (no converged states needed)


def _scale(v, f):
    if v is None:
        return None
    if isinstance(v, list):
        return [_scale(x, f) for x in v]
    return float(v) * f


def _scale_umat(um, S, done=None):
    keys = STRESS_KEYS.get(um["name"])
    if keys is None:
        return False
    if done is not None:
        if id(um) in done:  # the same dict referenced twice in the document
            return True
        done.add(id(um))
    for k in keys:
        if um["p"].get(k) is not None:
            um["p"][k] = _scale(um["p"][k], S)
    if um.get("third"):
        um["third"] = {k: _scale(v, S) for k, v in um["third"].items()}
    return True


def apply_units(doc, L, S):
    """The document in another consistent unit system, or None if some quantity of it has no
    entry in the dimension tables (axisymmetric fields, exotic materials)."""
    d = copy.deepcopy(doc)
    if d.get("field", {}).get("kind") == "Axi":
        return None
    m = d["mesh"]
    dim = 3 if m["gen"] == "Cube" else 2
    for key in ("a", "b", "extra_point", "orphan_point", "translate"):
        if m.get(key) is not None:
            m[key] = _scale(m[key], L)
    if m["gen"] not in ("Cube", "Rectangle"):
        return None
    force = S * L ** (dim - 1)  # point force (per unit thickness in 2D)
    factor = {}
    done = set()
    for k, it in enumerate(d["items"]):
        t = it["type"]
        if "umat" in it and not _scale_umat(it["umat"], S, done):
            return None
        if t == "SolidBodyNearlyIncompressible":
            it["bulk"] = _scale(it["bulk"], S)
        elif t == "PointLoad":
            if it.get("axisymmetric"):
                return None
            it["values"] = _scale(it["values"], force)
            factor[k] = force
        elif t in ("SolidBodyGravity",):
            it["gravity"] = _scale(it["gravity"], S / L)
            factor[k] = S / L
        elif t == "SolidBodyForce":
            it["values"] = _scale(it["values"], S / L)
            factor[k] = S / L
        elif t == "SolidBodyPressure":
            it["pressure"] = _scale(it.get("pressure", 0.0), S)
            factor[k] = S
        elif t == "SolidBodyCauchyStress":
            if it.get("stress") is not None:
                it["stress"] = _scale(it["stress"], S)
            factor[k] = S
        elif t in ("MultiPointConstraint", "MultiPointContact"):
            it["multiplier"] = _scale(it["multiplier"], S * L ** (dim - 2))
        elif t == "FormItem":
            it["mu"] = _scale(it["mu"], S)
            it["lmbda"] = _scale(it["lmbda"], S)
            factor[k] = 1.0
        elif t not in ("SolidBody",):
            return None
    if "material" in d and not _scale_umat(d["material"], S, done):
        return None
    bc = d.get("bc", {})
    for c in bc.get("list", []):
        if isinstance(c.get("value"), (int, float, list)):
            c["value"] = _scale(c["value"], L)
    for c in bc.get("extra", []):
        if c.get("field") == 1:
            c["value"] = _scale(c["value"], S)
    for s in d.get("steps", []):
        for r in s.get("ramp", []):
            tgt = r["target"]
            if tgt == "bc:patch":
                continue  # a multiple of X @ H.T: scales with the coordinates
            if tgt.startswith("bc:"):
                r["values"] = _scale(r["values"], L)
            else:
                r["values"] = _scale(r["values"], factor.get(int(tgt[5:]), 1.0))
    d["units"] = {"L": L, "S": S}
    return d


def maybe_units(doc, any_force=False, share=4):
    """Every `share`-th scenario (by its seed) in another consistent unit system."""
    seed = doc.get("seed", 0)
    if kpick(seed, "units", share) != 0:
        return doc
    systems = UNIT_SYSTEMS_ANY if any_force else UNIT_SYSTEMS
    L, S = systems[kpick(seed, "unit-system", len(systems))]
    u = apply_units(doc, L, S)
    return doc if u is None else u
