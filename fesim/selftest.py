"""Self tests of the simulator: determinism proof and sensitivity proof (DESIGN section 9).

  ./check selftest determinism [--props C07,C15] [--n 200]
  ./check selftest sensitivity [--only <substring>] [--budget S]

Sensitivity copies /repo/src to a scratch directory outside /repo and /verif, applies one
patch from /verif/mutants, runs the owning property's quick check against the copy
(FESIM_REPO_SRC) and expects a VIOLATION; the copy is removed afterwards.
"""
import glob
import importlib
import json
import os
import shutil
import subprocess
import sys
import tempfile
import time

HERE = os.path.dirname(os.path.dirname(os.path.abspath(__file__)))


def sensitivity(only=None, budget=45, jobs=1, dirs=("mutants", "seeded")):
    patches = []
    for d in dirs:
        patches += sorted(glob.glob(os.path.join(HERE, d, "*.patch"))) + sorted(glob.glob(os.path.join(HERE, d, "*", "patch.diff")))
    if only:
        patches = [p for p in patches if only in p]
    rows = []
    for p in patches:
        name = os.path.basename(p)[:-6] if p.endswith(".patch") else os.path.basename(os.path.dirname(p))
        meta = {}
        mp = os.path.join(os.path.dirname(p), "meta.json")
        if os.path.basename(p) == "patch.diff" and os.path.exists(mp):
            meta = json.load(open(mp))
        props = meta.get("properties") or [name.split("-")[0]]
        scratch = tempfile.mkdtemp(prefix="fesim-mut-")
        try:
            subprocess.run(["rsync", "-a", "--exclude", "__pycache__", "/repo/src", scratch + "/"], check=True)
            r = subprocess.run(["patch", "-p1", "-s", "-d", scratch, "-i", p], capture_output=True, text=True)
            if r.returncode != 0:
                rows.append((name, props, "PATCH-FAILED", r.stdout + r.stderr))
                print(rows[-1], flush=True)
                continue
            for prop in props:
                env = dict(os.environ, FESIM_REPO_SRC=scratch + "/src")
                t0 = time.time()
                r = subprocess.run([os.path.join(HERE, "check"), prop, "--tier", "quick", "--budget", str(budget), "--no-evidence"], capture_output=True, text=True, env=env)
                v = [l for l in r.stdout.splitlines() if l.startswith("VIOLATION") or l.startswith("  monitor=")]
                rows.append((name, prop, {0: "MISSED", 1: "CAUGHT", 2: "HARNESS_ERROR"}.get(r.returncode, str(r.returncode)), f"{time.time()-t0:.0f}s " + " | ".join(x.strip()[:160] for x in v[:4]) + (r.stderr[-300:] if r.returncode == 2 else "")))
                print(rows[-1], flush=True)
        finally:
            shutil.rmtree(scratch, ignore_errors=True)
    caught = sum(1 for r in rows if r[2] == "CAUGHT")
    print(f"sensitivity: {caught}/{len(rows)} caught")
    return 0 if caught == len(rows) else 1


def determinism(props, n=200, tier="quick"):
    """Run n documents per property three times: 16 workers, 1..2 workers, and under another
    PYTHONHASHSEED in fresh interpreters; diff the run digests."""
    sys.path.insert(0, HERE)
    from fesim import kernel, runner

    bad = 0
    for prop in props:
        mod = importlib.import_module(f"fesim.props.{prop}")
        docs = [mod.generate(kernel.run_seed(int(os.environ.get("VERIF_SEED", "0")), prop, "selftest", k), tier, k) for k in range(n)]
        reqs = [{"prop": prop, "doc": d, "wall_cap": 120} for d in docs]
        outs = []
        for nw, hs in ((16, "0"), (3, "0"), (16, "1"), (7, "12345")):
            with runner.Pool(nw, hashseed=hs) as p:
                outs.append(p.map(reqs))
        mism = 0
        exempt = 0
        for i in range(n):
            ds = {(o[i].get("digest"), o[i].get("outcome")) for o in outs}
            if len(ds) != 1 and len({d for d, _ in ds}) == 1 and any((o[i].get("counters") or {}).get("numerics:singular-operator") for o in outs):
                # same events, another verdict: what ARPACK returns for an exactly singular operator (the
                # open C18 findings) is not reproducible run to run - as in the checks, only the event
                # digest is compared for these documents (DESIGN 15.5)
                exempt += 1
                continue
            if len(ds) != 1:
                mism += 1
                if mism <= 3:
                    print("MISMATCH", prop, i, ds, json.dumps(docs[i])[:300])
        oc = {}
        for o in outs[0]:
            oc[o["outcome"]] = oc.get(o["outcome"], 0) + 1
        print(f"determinism {prop}: {n} documents x 4 configurations, mismatches={mism}, outcomes={oc}" + (f", singular-operator documents compared by event digest only: {exempt}" if exempt else ""), flush=True)
        bad += mism
    return 0 if bad == 0 else 2


def main(seed):
    import argparse

    ap = argparse.ArgumentParser()
    ap.add_argument("_", nargs=1)
    ap.add_argument("what", choices=["determinism", "sensitivity"])
    ap.add_argument("--props", default="")
    ap.add_argument("--n", type=int, default=200)
    ap.add_argument("--only")
    ap.add_argument("--budget", type=float, default=45)
    a = ap.parse_args()
    if a.what == "sensitivity":
        return sensitivity(only=a.only, budget=a.budget)
    from fesim.cli import CLAIMED

    props = [p for p in a.props.split(",") if p] or CLAIMED
    return determinism(props, n=a.n)
