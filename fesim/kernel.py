"""fesim kernel: seeds, streams, event log / digest, outcome classes.

One integer (VERIF_SEED) decides everything: the seed of run k of property P in tier T is
blake2b(f"{VERIF_SEED}/{P}/{T}/{k}"); inside a run, independent named streams are derived
from that seed, so that removing a fault while minimising does not shift the schedule or
the generated model. Nothing in here reads a real clock or draws from a global PRNG.
"""
import hashlib
import json
import random

import numpy as np


def h64(*parts):
    h = hashlib.blake2b("/".join(str(p) for p in parts).encode(), digest_size=8)
    return int.from_bytes(h.digest(), "big")


def pick(seed, feature, n):
    """An independent choice in range(n) per (run seed, feature name): scenario options that are
    derived from the seed instead of drawn by the generator do not correlate with each other."""
    return h64(seed, feature) % n


def run_seed(verif_seed, prop, tier, k):
    return h64(verif_seed, prop, tier, k)


class Streams:
    """Independent named PRNG streams derived from one run seed."""

    def __init__(self, seed):
        self.seed = int(seed)
        self._s = {}

    def __getitem__(self, name):
        if name not in self._s:
            self._s[name] = random.Random(h64(self.seed, name))
        return self._s[name]

    def np(self, name):
        return np.random.default_rng(h64(self.seed, "np", name))


# ----------------------------------------------------------------------------------------
# outcomes
# ----------------------------------------------------------------------------------------
class Violation(Exception):
    def __init__(self, prop, monitor, detail, site=None, fault=None):
        super().__init__(f"{prop}/{monitor}: {detail}")
        self.prop = prop
        self.monitor = monitor
        self.detail = detail
        self.site = site  # call site / object the violation is about (for known findings)
        self.fault = fault  # fault kind that exposed it, or None


class Discard(Exception):
    """Scenario left the domain of the property. Counted, never pass, never violation."""

    def __init__(self, reason):
        super().__init__(reason)
        self.reason = reason


class Misbehaviour(BaseException):
    """A violation found by property-independent machinery (engine, world); the worker files it
    under the property whose scenario was running."""

    def __init__(self, monitor, detail, site=None, fault=None):
        super().__init__(f"{monitor}: {detail}")
        self.monitor, self.detail, self.site, self.fault = monitor, detail, site, fault


class SimAbort(BaseException):
    """Injected failure that is not an `Exception` (abort hook, interrupt, cancellation)."""

    _fesim_injected = True


class Unexpected(BaseException):
    """An exception of an undocumented kind escaped felupe in a fault-free run (e.g. a numpy
    broadcasting ValueError instead of Newton's own 'not converged' ValueError). The worker
    reports it as a violation of the property whose scenario it was."""

    def __init__(self, exc, where):
        super().__init__(f"{type(exc).__name__}: {exc}")
        self.exc = exc
        self.where = where


NEWTON_MESSAGES = ("Norm of unknowns is NaN.", "Maximum number of iterations reached")


def newton_failure(e):
    """Newton's documented way of failing (also: LinAlgError of an eigen-solver fed with NaN)."""
    import numpy as _np

    if isinstance(e, _np.linalg.LinAlgError):
        return True
    return isinstance(e, ValueError) and str(e).startswith(NEWTON_MESSAGES)


class HarnessError(BaseException):
    """A failure of the simulator itself. Never a pass and never a violation."""


def origin(e):
    """Where an exception came from: 'injected' (raised on purpose by the simulator),
    'harness' (raised by fesim code, i.e. a bug in the simulator), 'felupe' (anything
    raised by the code under test or by a library on its behalf)."""
    if isinstance(e, InjectedFault) or getattr(e, "_fesim_injected", False):
        return "injected"
    if isinstance(e, (Violation, Discard, HarnessError)):
        return "harness"
    last = None
    tb = e.__traceback__
    while tb is not None:
        fn = tb.tb_frame.f_code.co_filename
        if "/fesim/" in fn:
            last = "harness"
        elif "/felupe/" in fn:
            last = "felupe"
        elif last is None:
            last = "felupe"
        tb = tb.tb_next
    if getattr(e, "_fesim_real", False):
        return "felupe"
    return last or "felupe"


class InjectedFault(Exception):
    """Base class of all exceptions the simulator injects (never raised by felupe)."""


class SimSolverError(InjectedFault, RuntimeError):
    pass


class SimMaterialError(InjectedFault, FloatingPointError):
    pass


class SimCallbackError(InjectedFault, RuntimeError):
    pass


class SimDiskError(InjectedFault, OSError):
    pass


class SimWorkerError(InjectedFault, MemoryError):
    pass


# ----------------------------------------------------------------------------------------
# event log
# ----------------------------------------------------------------------------------------
def adigest(a):
    """Byte-exact digest of an array (dtype, shape, bytes)."""
    a = np.asarray(a)
    h = hashlib.blake2b(digest_size=8)
    h.update(str(a.dtype).encode())
    h.update(str(a.shape).encode())
    h.update(np.ascontiguousarray(a).tobytes())
    return h.hexdigest()


def _canon(v):
    if isinstance(v, np.ndarray):
        return "nd:" + adigest(v)
    if isinstance(v, (np.floating, float)):
        return float(v).hex()
    if isinstance(v, (np.integer,)):
        return int(v)
    if isinstance(v, (list, tuple)):
        return [_canon(x) for x in v]
    if isinstance(v, dict):
        return {str(k): _canon(x) for k, x in sorted(v.items(), key=lambda kv: str(kv[0]))}
    if isinstance(v, (str, int, bool)) or v is None:
        return v
    return repr(v)


class EventLog:
    """Append-only log of what happened in a run. The digest is what the determinism
    self-test compares; logging never draws random numbers and never reads a clock."""

    def __init__(self, keep=40):
        self.h = hashlib.blake2b(digest_size=16)
        self.n = 0
        self.head = []
        self.keep = keep
        self.counters = {}
        self.masked = 0

    def ev(self, _ev, **data):
        rec = [_ev, _canon(data)]
        s = json.dumps(rec, sort_keys=True, separators=(",", ":"))
        self.h.update(s.encode())
        self.n += 1
        if len(self.head) < self.keep:
            self.head.append(s if len(s) < 300 else s[:297] + "...")

    def count(self, name, k=1):
        self.counters[name] = self.counters.get(name, 0) + k

    def digest(self):
        return self.h.hexdigest()


def jsonable(v):
    if isinstance(v, np.ndarray):
        return v.tolist()
    if isinstance(v, (np.floating,)):
        return float(v)
    if isinstance(v, (np.integer,)):
        return int(v)
    if isinstance(v, (np.bool_,)):
        return bool(v)
    if isinstance(v, (list, tuple)):
        return [jsonable(x) for x in v]
    if isinstance(v, dict):
        return {str(k): jsonable(x) for k, x in v.items()}
    return v


# ----------------------------------------------------------------------------------------
# numeric helpers shared by monitors
# ----------------------------------------------------------------------------------------
def close_exact_twin(a, b, rtol=1e-11, atol=1e-300):
    """Same operations in a different order (DESIGN section 6)."""
    a = np.asarray(a, dtype=float)
    b = np.asarray(b, dtype=float)
    if a.shape != b.shape:
        return False, float("inf")
    if a.size == 0:
        return True, 0.0
    if not (np.all(np.isfinite(a)) and np.all(np.isfinite(b))):
        same = np.array_equal(np.isnan(a), np.isnan(b)) and np.array_equal(
            np.nan_to_num(a, nan=0.0), np.nan_to_num(b, nan=0.0)
        )
        return bool(same), 0.0 if same else float("inf")
    d = float(np.max(np.abs(a - b)))
    s = float(np.max(np.abs(a)) + np.max(np.abs(b)))
    return d <= rtol * s + atol, d / (s + 1e-300)
