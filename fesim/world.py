"""Scenario document -> felupe objects ("world"), forks and durable state.

A world is rebuilt from its document at any time; `durable()` / `load()` move exactly the
state that survives a restart (field values, committed statevars, optionally the condensed
(p, J, u) of the nearly-incompressible body).
"""
import copy

import numpy as np

import felupe as fem

from .apicall import call as api
from .kernel import Discard, pick


# ----------------------------------------------------------------------------------------
# meshes
# ----------------------------------------------------------------------------------------
REGION_BY_CELLTYPE = {
    "line": None,
    "quad": "RegionQuad",
    "quad8": "RegionQuadraticQuad",
    "quad9": "RegionBiQuadraticQuad",
    "hexahedron": "RegionHexahedron",
    "hexahedron20": "RegionQuadraticHexahedron",
    "hexahedron27": "RegionTriQuadraticHexahedron",
    "triangle": "RegionTriangle",
    "triangle6": "RegionQuadraticTriangle",
    "tetra": "RegionTetra",
    "tetra10": "RegionQuadraticTetra",
}

BOUNDARY_REGION = {
    "quad": "RegionQuadBoundary",
    "quad8": "RegionQuadraticQuadBoundary",
    "quad9": "RegionBiQuadraticQuadBoundary",
    "hexahedron": "RegionHexahedronBoundary",
    "hexahedron20": "RegionQuadraticHexahedronBoundary",
    "hexahedron27": "RegionTriQuadraticHexahedronBoundary",
}


def _perturb(mesh, seed, amp, only_interior=True):
    """Move points by a seeded amount (fraction `amp` of the smallest cell edge)."""
    if amp <= 0:
        return mesh
    pts = mesh.points.copy()
    lo, hi = pts.min(0), pts.max(0)
    span = hi - lo
    span[span == 0] = 1.0
    corner = pts[mesh.cells[:, : 2 ** mesh.dim if mesh.cell_type not in ("triangle", "triangle6", "tetra", "tetra10") else mesh.dim + 1]]
    edge = np.inf
    for c in corner:
        d = np.linalg.norm(c[:, None, :] - c[None, :, :], axis=-1)
        d = d[d > 0]
        if d.size:
            edge = min(edge, d.min())
    rng = np.random.default_rng(seed)
    delta = rng.uniform(-1, 1, pts.shape) * amp * edge
    if only_interior:
        tol = 1e-9 * span.max()
        onb = np.any((np.abs(pts - lo) < tol) | (np.abs(pts - hi) < tol), axis=1)
        delta[onb] = 0
    return fem.Mesh(pts + delta, mesh.cells, mesh.cell_type)


def build_mesh(m):
    gen = m["gen"]
    if m.get("rot90") and gen in ("Cube", "Rectangle"):
        # the body as a caller may have built it: meshed along the other in-plane axes and turned by 90
        # degrees about z (mesh.rotate) - it touches the same coordinate planes, its extents are the
        # documented ones, it lies at negative x, and its coordinates in those planes are zero only up
        # to round-off (cos 90 deg = 6e-17)
        m2 = dict(m)
        m2.pop("rot90")
        for key in ("a", "b", "n"):
            v = list(m2[key])
            v[0], v[1] = v[1], v[0]
            m2[key] = v
        mesh = build_mesh(m2).rotate(90, axis=2)
        return fem.Mesh(mesh.points, mesh.cells, mesh.cell_type)
    n = m.get("n", 2)
    if gen == "Cube":
        mesh = fem.Cube(a=tuple(m.get("a", (0, 0, 0))), b=tuple(m.get("b", (1, 1, 1))), n=tuple(n))
    elif gen == "Rectangle":
        mesh = fem.Rectangle(a=tuple(m.get("a", (0, 0))), b=tuple(m.get("b", (1, 1))), n=tuple(n))
    elif gen == "Grid":
        mesh = fem.Grid(*[np.asarray(x, dtype=float) for x in m["xi"]])
    elif gen == "Circle":
        mesh = fem.Circle(n=int(n[0] if isinstance(n, (list, tuple)) else n), radius=m.get("radius", 1.0))
    elif gen == "LagrangeCell":
        # one arbitrary-order Lagrange cell; node numbering = that of the element itself (VTK order for
        # permute=True, plain tensor-grid order for permute=False)
        el = fem.ArbitraryOrderLagrangeElement(order=m["order"], dim=m["dim"], permute=m.get("permute", True))
        a_, b_ = np.asarray(m.get("a", [0.0] * m["dim"]), dtype=float), np.asarray(m["b"], dtype=float)
        pts = a_ + (np.asarray(el.points, dtype=float) + 1.0) / 2.0 * (b_ - a_)
        p_ = m.get("perturb")
        if p_:
            prng = np.random.default_rng(p_["seed"])
            inner = np.all((np.abs(np.asarray(el.points)) < 1 - 1e-9), axis=1)
            pts[inner] += p_["amp"] * (b_ - a_).min() / m["order"] * prng.uniform(-1, 1, (int(inner.sum()), m["dim"]))
        cell_type = "VTK_LAGRANGE_QUADRILATERAL" if m["dim"] == 2 else "VTK_LAGRANGE_HEXAHEDRON"
        return fem.Mesh(pts, np.arange(len(pts)).reshape(1, -1), cell_type)
    else:
        raise ValueError(gen)
    if m.get("roll") and mesh.cell_type in ("quad", "hexahedron"):
        # every cell starts at another corner (cyclic permutation of the local numbering: valid,
        # same geometry, positive volumes)
        order = [1, 2, 3, 0] if mesh.cell_type == "quad" else [1, 2, 3, 0, 5, 6, 7, 4]
        mesh = fem.Mesh(mesh.points, mesh.cells[:, order], mesh.cell_type)
    p = m.get("perturb")
    if p and m.get("perturb_before_convert", True):
        mesh = _perturb(mesh, p["seed"], p["amp"])
    conv = m.get("convert")
    if conv == "quadratic":  # serendipity: quad8 / hexahedron20
        mesh = mesh.add_midpoints_edges()
    elif conv in ("biquadratic", "triquadratic"):  # quad9 / hexahedron27
        mesh = mesh.add_midpoints_edges().add_midpoints_faces()
        if mesh.dim == 3:
            mesh = mesh.add_midpoints_volumes()
    elif conv == "triangulate":  # triangle / tetra
        mesh = mesh.triangulate()
    elif conv == "triangulate-quadratic":  # triangle6 / tetra10
        mesh = mesh.triangulate().add_midpoints_edges()
    elif conv:
        raise ValueError(conv)
    if p and not m.get("perturb_before_convert", True):
        mesh = _perturb(mesh, p["seed"], p["amp"])
    r = m.get("rigid")
    if r:
        mesh = mesh.rotate(r["angle"], axis=r.get("axis", 2))
        pts = mesh.points + np.asarray(r["shift"], dtype=float)[: mesh.dim]
        mesh = fem.Mesh(pts, mesh.cells, mesh.cell_type)
    tr = m.get("translate")
    if tr:
        # the same body somewhere else in space (rigidly translated)
        mesh = fem.Mesh(mesh.points + np.asarray(tr, dtype=float)[: mesh.dim], mesh.cells, mesh.cell_type)
    rn = m.get("renumber")
    if rn:
        # a valid but unusual numbering: points and cells in shuffled order
        prng = np.random.default_rng(rn["seed"])
        perm = prng.permutation(mesh.npoints)  # new point k is old point perm[k]
        inv = np.empty_like(perm)
        inv[perm] = np.arange(mesh.npoints)
        cells = inv[mesh.cells]
        if rn.get("cells", True):
            cells = cells[prng.permutation(len(cells))]
        mesh = fem.Mesh(mesh.points[perm], cells, mesh.cell_type)
    ex = m.get("extra_point") or m.get("orphan_point")
    if ex:
        mesh = fem.Mesh(np.vstack([mesh.points, np.asarray(ex, dtype=float)[: mesh.dim]]), mesh.cells, mesh.cell_type)
    return mesh


class _StubPlotter:
    """Stands in for a pyvista plotter handed over through the public plotter= argument."""

    def __getattr__(self, name):
        return lambda *a, **k: None


def look_at_region(region):
    """Read-only use of a region and of the objects it shares with every other region of its
    template (the default quadrature scheme and element instances)."""
    q = region.quadrature
    q.plot(plotter=_StubPlotter(), weighted=True)
    q.plot(plotter=_StubPlotter(), weighted=False, point_size=7)
    if hasattr(q, "inv"):
        q.inv()
    if hasattr(region, "copy"):
        region.copy()
    pts = np.array(q.points, copy=True)
    region.element.function(pts[0])
    region.element.gradient(pts[0])


def build_region(mesh, spec=None):
    spec = spec or {}
    if spec.get("look"):
        look_at_region(build_region(mesh, {k: v for k, v in spec.items() if k != "look"}))
    if mesh.cell_type.startswith("VTK_LAGRANGE"):
        region = fem.RegionLagrange(mesh, order=spec["order"], dim=mesh.dim, permute=spec.get("permute", True))
        if np.any(region.dV <= 0):
            raise Discard("invalid-mesh")
        return region
    name = spec.get("name") or REGION_BY_CELLTYPE[mesh.cell_type]
    kw = {}
    if spec.get("uniform"):
        kw["uniform"] = True
    import warnings

    with warnings.catch_warnings(record=True) as w:
        warnings.simplefilter("always")
        region = getattr(fem, name)(mesh, **kw)
    if np.any(region.dV <= 0) or any("negative" in str(x.message).lower() for x in w):
        raise Discard("invalid-mesh")
    return region


def build_field(region, spec, seed=0):
    kind = spec.get("kind", "Field")
    dim = region.mesh.dim
    if kind == "Field":
        return fem.FieldContainer([fem.Field(region, dim=dim)])
    if kind == "PlaneStrain":
        return fem.FieldContainer([fem.FieldPlaneStrain(region, dim=2)])
    if kind == "Axi":
        return fem.FieldContainer([fem.FieldAxisymmetric(region, dim=2)])
    if kind == "Mixed3":
        kw = {}
        if spec.get("planestrain"):
            kw["planestrain"] = True
        if spec.get("axisymmetric"):
            kw["axisymmetric"] = True
        return api("FieldsMixed", fem.FieldsMixed, seed, region, n=3, **kw)
    raise ValueError(kind)


# ----------------------------------------------------------------------------------------
# materials
# ----------------------------------------------------------------------------------------
def build_umat(u):
    name = u["name"]
    p = dict(u.get("p", {}))
    par = bool(u.get("parallel", False))
    if name == "NeoHooke":
        return fem.NeoHooke(mu=p["mu"], bulk=p.get("bulk"), parallel=par)
    if name == "NeoHookeCompressible":
        return fem.NeoHookeCompressible(mu=p["mu"], lmbda=p["lmbda"], parallel=par)
    if name == "LinearElastic":
        return fem.LinearElastic(E=p["E"], nu=p["nu"])
    if name == "LinearElasticLargeStrain":
        return fem.LinearElasticLargeStrain(E=p["E"], nu=p["nu"], parallel=par)
    if name == "OgdenRoxburgh":
        base = fem.NeoHooke(mu=p["mu"])
        return fem.OgdenRoxburgh(base, r=p["r"], m=p["m"], beta=p["beta"]) & fem.Volumetric(bulk=p["bulk"])
    if name == "OgdenRoxburghAD":
        return fem.Hyperelastic(
            fem.ogden_roxburgh, material=fem.neo_hooke, r=p["r"], m=p["m"], beta=p["beta"], mu=p["mu"], nstatevars=1
        ) & fem.Volumetric(bulk=p["bulk"])
    if name.startswith("AD:"):
        fun = getattr(fem, name[3:])
        bulk = p.pop("bulk", None)
        um = fem.Hyperelastic(fun, parallel=par, **p)
        if bulk is not None:
            um = um & fem.Volumetric(bulk=bulk)
        if u.get("third"):
            # a chain of three: (a & b) & c - the two-material composite it is built from stays an
            # object of its own (a caller may go on using it): what it returns does not change
            from .kernel import Misbehaviour

            base = um
            Ft = (np.eye(3) + 0.1 * np.array([[0.3, 0.2, -0.1], [0.05, -0.2, 0.15], [-0.1, 0.1, 0.25]])).reshape(3, 3, 1, 1)
            before = [np.array(a, copy=True) for a in base.gradient([Ft.copy(), None])[:1]] + [np.array(a, copy=True) for a in base.hessian([Ft.copy(), None])[:1]]
            um = base & fem.NeoHookeCompressible(mu=u["third"]["mu"], lmbda=u["third"]["lmbda"])
            after = [np.asarray(a) for a in base.gradient([Ft.copy(), None])[:1]] + [np.asarray(a) for a in base.hessian([Ft.copy(), None])[:1]]
            if not all(np.array_equal(a, b) for a, b in zip(before, after)):
                raise Misbehaviour("caller-data", "a composite material returns another stress / elasticity after a second composite was built from it (`ext = base & other` changed `base`)", site="CompositeMaterial.__and__")
        return um
    if name == "Plastic":
        return fem.MaterialStrain(
            material=fem.linear_elastic_plastic_isotropic_hardening,
            λ=p["lmbda"],
            μ=p["mu"],
            σy=p["sy"],
            K=p["K"],
            dim=p.get("dim", 3),
            statevars=(1, (3, 3)),
        )
    if name == "Visco":
        return fem.Hyperelastic(
            fem.finite_strain_viscoelastic, mu=p["mu_v"], eta=p["eta"], dtime=p["dtime"], nstatevars=6
        ) & fem.NeoHooke(mu=p["mu"], bulk=p["bulk"])
    if name == "ThreeField":
        return fem.ThreeFieldVariation(fem.NeoHooke(mu=p["mu"], bulk=p["bulk"]), parallel=par)
    if name == "NearlyIncompressible":
        from .kernel import h64

        kw = {}
        if u.get("vol") == "log":
            # the caller's own volumetric part U = K / 2 ln(J)^2, given as the two documented callables
            kw = {"dUdJ": lambda J, bulk: bulk * np.log(J) / J, "d2UdJdJ": lambda J, bulk: bulk * (1 - np.log(J)) / J**2}
        return api("NearlyIncompressible", fem.NearlyIncompressible, h64(repr(sorted(p.items())), u.get("vol")), fem.NeoHooke(mu=p["mu"]), bulk=p["bulk"], parallel=par, **kw)
    if name == "NearlyIncompressibleAD":
        fun = getattr(fem, p.pop("fun"))
        bulk = p.pop("bulk")
        return fem.NearlyIncompressible(fem.Hyperelastic(fun, **p), bulk=bulk)
    raise ValueError(name)


HISTORY_MATERIALS = ("OgdenRoxburgh", "OgdenRoxburghAD", "Plastic", "Visco")


# ----------------------------------------------------------------------------------------
# world
# ----------------------------------------------------------------------------------------
def run_prelude(doc):
    """Earlier, unrelated activity in the same process (post-processing of another model of the
    same kind with the public helpers): it must not change what a model created afterwards does."""
    if doc.get("height_study") and not doc.get("_sibling"):
        # the same model with two more layers of cells was analysed earlier in this process: its
        # constraint items assembled their vectors and matrices
        import copy

        d2 = copy.deepcopy(doc)
        d2["_sibling"] = True
        d2.pop("prelude", None)
        d2["mesh"]["n"] = list(d2["mesh"]["n"][:-1]) + [d2["mesh"]["n"][-1] + 2]
        try:
            w2 = World(d2)
            for it in w2.items:
                if type(it).__name__.startswith("MultiPoint"):
                    it.assemble.vector(w2.field)
                    it.assemble.matrix()
        except Discard:
            pass
    for op in doc.get("prelude", []):
        mesh = build_mesh(doc["mesh"])
        region = build_region(mesh, doc.get("region"))
        field = fem.FieldContainer([fem.Field(region, dim=mesh.dim)])
        F = field.extract()[0]
        try:
            if op == "extrapolate":
                fem.tools.extrapolate(F, region, mean=not hasattr(region.quadrature, "inv"))
            elif op == "project":
                fem.project(F, region)
            else:
                raise ValueError(op)
        except (AttributeError, NotImplementedError, ValueError):
            pass  # the helper refuses this element / quadrature combination: no earlier activity then


class World:
    def __init__(self, doc, umat_wrap=None):
        self.doc = doc
        self.seed = doc.get("seed", 0)
        run_prelude(doc)
        self.mesh = build_mesh(doc["mesh"])
        self.region = build_region(self.mesh, doc.get("region"))
        self.field = build_field(self.region, doc.get("field", {}), self.seed)
        if doc["mesh"].get("orphan_point") and pick(self.seed, "orphan-prepositioned", 2) == 0:
            # the point without cells (its unknowns are held automatically) carries values of its own: a
            # pre-positioned control point, a left-over of an earlier analysis
            span_ = float((self.mesh.points.max(0) - self.mesh.points.min(0)).max())
            v_ = self.field[0].values
            v_[-1] = (0.1 * span_ * np.array([1.0, -0.5, 0.25]))[: v_.shape[1]]
        self.umats = []
        self.given_statevars = {}
        self.items = []
        self.boundary_regions = {}
        self.umat_wrap = umat_wrap
        for k, it in enumerate(doc["items"]):
            self.items.append(self._build_item(k, it))
        if any(it.get("free_centerpoint") for it in doc["items"]):
            # documented pattern: the centre point of a multi-point constraint is taken off the list of
            # points without cells, its unknowns are then free (held by the constraint only)
            self.mesh.points_without_cells = self.mesh.points_without_cells[:-1]
        self.top = None
        self.boundaries, self.ramp_bc = self._build_bc(doc.get("bc", {"case": "none"}))
        self.steps = []
        for s in doc.get("steps", []):
            self.steps.append(self._build_step(s))
        self.manual_set(0, 0)
        self.shadow = None
        if doc.get("shadow_model") and doc["items"] and doc["items"][0]["type"] == "SolidBody" and doc.get("field", {}).get("kind", "Field") in ("Field", "PlaneStrain"):
            # a second, unrelated model in the same process that shares the MATERIAL OBJECT of the first
            # body (one material definition for several parts): same region, its own field container,
            # its own solid body - evaluated at its own states between the substeps of the job
            um0 = self.items[0].umat
            self.shadow_field = build_field(self.region, doc.get("field", {}), self.seed)
            self.shadow = fem.SolidBody(getattr(um0, "inner", um0), self.shadow_field)
            self.shadow_pokes = 0

    def manual_set(self, j, i):
        """Caller-side boundary update for substep i of step j (steps whose boundaries are not in the ramp)."""
        mr = self.__dict__.get("manual_ramps")
        if not mr:
            return
        for obj_, vals_ in mr.get(j, []):
            obj_.update(vals_[i])

    def manual_advance(self, j, i):
        """After substep (j, i) converged: the values of the next substep (next step; or, after the
        last one, the first again - the job may be evaluated a second time)."""
        mr = self.__dict__.get("manual_ramps")
        if not mr:
            return
        n = len(self.doc["steps"][j]["ramp"][0]["values"])
        if i + 1 < n:
            self.manual_set(j, i + 1)
        elif j + 1 < len(self.doc["steps"]):
            self.manual_set(j + 1, 0)
        else:
            self.manual_set(0, 0)

    def poke_shadow(self):
        """The other model takes a (converged) step of its own."""
        if self.shadow is None:
            return
        self.shadow_pokes += 1
        rng = np.random.default_rng([self.seed % (1 << 32), self.shadow_pokes])
        span = float((self.mesh.points.max(0) - self.mesh.points.min(0)).max())
        vals = self.shadow_field[0].values
        vals[...] = 0.03 * span * rng.normal(size=vals.shape)
        self.shadow.assemble.vector(self.shadow_field)
        self.shadow.assemble.matrix()
        self.shadow.results.update_statevars()

    # -- items ------------------------------------------------------------------------
    def _umat(self, k, spec):
        um = build_umat(spec)
        if self.umat_wrap is not None:
            um = self.umat_wrap(k, um, spec)
        self.umats.append(um)
        return um

    def _boundary_field(self, spec):
        key = repr(sorted(spec.items()))
        if key not in self.boundary_regions:
            name = BOUNDARY_REGION[self.mesh.cell_type]
            kw = {}
            if "mask_axis" in spec:
                ax, val = spec["mask_axis"], spec["mask_value"]
                pts = self.mesh.points
                lo, hi = pts[:, ax].min(), pts[:, ax].max()
                coord = hi if val == "max" else lo
                kw["mask"] = np.isclose(pts[:, ax], coord)
            if spec.get("only_surface") is not None:
                kw["only_surface"] = spec["only_surface"]
            kind = self.doc.get("field", {}).get("kind", "Field")
            if kind in ("Axi", "PlaneStrain"):
                kw["ensure_3d"] = True  # normals with three components for the 3x3 kinematics
            rb = getattr(fem, name)(self.mesh, **kw)
            if kind == "Axi":
                fb = fem.FieldContainer([fem.FieldAxisymmetric(rb, dim=2)])
            elif kind == "PlaneStrain":
                fb = fem.FieldContainer([fem.FieldPlaneStrain(rb, dim=2)])
            else:
                fb = fem.FieldContainer([fem.Field(rb, dim=self.mesh.dim)])
            self.boundary_regions[key] = fb
        return self.boundary_regions[key]

    def _build_item(self, k, it):
        t = it["type"]
        f = self.field
        if t == "SolidBody":
            kw = {}
            if "multiplier" in it:
                kw["multiplier"] = it["multiplier"]
            if "block" in it:
                kw["block"] = it["block"]
            if it.get("density") is not None:
                kw["density"] = it["density"]
            um_ = self._umat(k, it["umat"])
            if it["umat"]["name"] in HISTORY_MATERIALS and pick(self.seed, f"explicit-statevars:{k}", 3) == 0 and hasattr(getattr(um_, "inner", um_), "x"):
                # the caller hands over the array of the initial state variables (start from a known state)
                xs = getattr(um_, "inner", um_).x
                sv0 = np.zeros((*xs[-1].shape, f.region.quadrature.npoints, f.region.mesh.ncells))
                self.given_statevars[k] = sv0
                kw["statevars"] = sv0
            return api("SolidBody", fem.SolidBody, self.seed, um_, f, **kw)
        if t == "SolidBodyNearlyIncompressible":
            kw = {}
            if it.get("density") is not None:
                kw["density"] = it["density"]
            return api("SolidBodyNearlyIncompressible", fem.SolidBodyNearlyIncompressible, self.seed, self._umat(k, it["umat"]), f, bulk=it["bulk"], **kw)
        self.umats.append(None)
        as_int = pick(self.doc.get("seed", 0), "int-loads", 4) == 1  # initial load values typed as Python ints where integral

        def typed(v):
            a = np.asarray(v, dtype=float)
            if as_int and np.all(a == np.round(a)):
                return a.astype(int).tolist() if a.ndim else int(a)
            return a if a.ndim else float(a)

        if t == "SolidBodyPressure":
            return api("SolidBodyPressure", fem.SolidBodyPressure, self.seed, self._boundary_field(it["face"]), pressure=typed(it.get("pressure", 0.0)))
        if t == "SolidBodyCauchyStress":
            cs = it.get("stress")
            return fem.SolidBodyCauchyStress(
                self._boundary_field(it["face"]), cauchy_stress=None if cs is None else np.asarray(cs, dtype=float)
            )
        if t == "SolidBodyForce":
            return api("SolidBodyForce", fem.SolidBodyForce, self.seed, f, values=typed(self._load_vector(it["values"])), scale=it.get("scale", 1.0))
        if t == "SolidBodyGravity":
            import warnings

            with warnings.catch_warnings():
                warnings.simplefilter("ignore")
                return api("SolidBodyGravity", fem.SolidBodyGravity, self.seed, f, gravity=typed(self._load_vector(it["gravity"])), density=it.get("density", 1.0))
        if t == "PointLoad":
            kw = {"axisymmetric": True} if it.get("axisymmetric") else {}
            pts = self._points(it["points"])
            if it.get("order") == "reversed":
                pts = pts[::-1].copy()  # a point list that is not sorted
            return api("PointLoad", fem.PointLoad, self.seed, f, pts, values=typed(it["values"]), **kw)
        if t in ("MultiPointConstraint", "MultiPointContact"):
            pts = self._points(it["points"])
            cp = int(self._points(it["centerpoint"])[0])
            pts = pts[pts != cp]
            # the point list as a caller may write it: ascending, descending, or two sets concatenated
            order = pick(self.seed, "multipoint-order", 3)
            if order == 1:
                pts = pts[::-1].copy()
            elif order == 2 and len(pts) > 2:
                h_ = len(pts) // 2
                pts = np.concatenate([pts[h_:], pts[:h_]])
            if it.get("negative_index"):
                cp = cp - self.mesh.npoints  # the same point, counted from the end (as in the docs: -1)
            cls = getattr(fem, t)
            return api(t, cls, self.seed, f, points=pts, centerpoint=cp, skip=tuple(it.get("skip", (False,) * self.mesh.dim)), multiplier=it.get("multiplier", 1e3))
        if t == "FormItem":
            return self._form_item(it)
        raise ValueError(t)

    def _form_item(self, it):
        """A linear-elastic-like body written with the Form expression API: residual
        int grad(v) : C : grad(u) * scale, tangent int grad(v) : C : grad(du) * scale."""
        from felupe.math import ddot, grad

        f = self.field
        d = f[0].dim
        rng = np.random.default_rng(it["C_seed"])
        eye = np.eye(d)
        C = it.get("mu", 1.0) * (np.einsum("ik,jl->ijkl", eye, eye) + np.einsum("il,jk->ijkl", eye, eye)) + it.get("lmbda", 1.0) * np.einsum("ij,kl->ijkl", eye, eye)
        R = 0.1 * rng.normal(size=(d, d, d, d))
        C = C + 0.5 * (R + R.transpose(2, 3, 0, 1))
        if it.get("nonsym"):
            R2 = 0.3 * rng.normal(size=(d, d, d, d))
            C = C + 0.5 * (R2 - R2.transpose(2, 3, 0, 1))
        C = C.reshape(d, d, d, d, 1, 1)
        holder = {}

        def bilinear():
            def a(v, u, scale=1.0, **kwargs):
                return ddot(grad(v), ddot(C, grad(u), mode=(4, 2))) * scale

            return [a]

        def linear():
            def L(v, scale=1.0, **kwargs):
                H = holder["item"].field[0].grad()
                return ddot(grad(v), ddot(C, H, mode=(4, 2))) * scale

            return [L]

        kwargs = {"scale": it.get("scale", 1.0)}
        item = fem.FormItem(
            bilinearform=fem.Form(v=f, u=f)(bilinear),
            linearform=fem.Form(v=f)(linear),
            sym=bool(it.get("sym", False)),
            kwargs=kwargs,
            ramp_item=0,
        )
        holder["item"] = item
        return item

    def toplevel_field(self):
        """Multi-body workflow: a separate top-level container (a copy) carries the boundaries
        and is handed over as x0; the items keep their own container."""
        top = self.field.copy()
        for b_ in self.boundaries.values():
            k_ = [q for q, f_ in enumerate(self.field.fields) if f_ is b_.field]
            if k_:
                b_.field = top.fields[k_[0]]
        self.top = top
        return top

    def _load_vector(self, v):
        """Body-load vector in the convention of the field kind (an axisymmetric value space has
        three components: axial, radial, hoop = 0)."""
        v = np.asarray(v, dtype=float)
        if self.doc.get("field", {}).get("kind") == "Axi" and v.size == 2:
            v = np.append(v, 0.0)
        return v

    def multiplier_of(self, item):
        k = [i for i, it in enumerate(self.items) if it is item][0]
        spec = self.doc["items"][k]
        if spec["type"] in ("PointLoad", "SolidBodyPressure", "SolidBodyCauchyStress", "SolidBodyForce", "SolidBodyGravity"):
            return -1.0  # external loads enter the residual with a minus sign (documented)
        if spec["type"] == "SolidBody":
            return float(spec.get("multiplier", 1.0))
        return 1.0  # (the "multiplier" of multi-point items is their penalty stiffness)

    def _points(self, sel):
        """Point selection: explicit list, or {'axis': i, 'at': 'min'|'max'|'extra'}."""
        if isinstance(sel, list):
            return np.asarray(sel, dtype=int)
        pts = self.mesh.points
        if sel.get("at") == "extra":
            return np.array([self.mesh.npoints - 1])
        ax = sel["axis"]
        body = pts[:-1] if (self.doc["mesh"].get("extra_point") or self.doc["mesh"].get("orphan_point")) else pts
        coord = body[:, ax].max() if sel["at"] == "max" else body[:, ax].min()
        ids = np.arange(self.mesh.npoints)[np.isclose(pts[:, ax], coord)]
        if self.doc["mesh"].get("extra_point") or self.doc["mesh"].get("orphan_point"):
            ids = ids[ids != self.mesh.npoints - 1]
        if "first" in sel:
            ids = ids[: sel["first"]]
        return ids

    # -- boundary conditions ------------------------------------------------------------
    def _build_bc(self, bc):
        b, ramp_bc = self._build_case(bc)
        b = dict(b)
        for c in bc.get("extra", []):
            bnd = self._custom_boundary(c)
            if c.get("field", 0) != 0 and len(b) > 1:
                # a boundary on another field shares no unknowns with the others: its place in the
                # dictionary (first, between the boundaries of the displacement field, last) is free
                entries = list(b.items())
                entries.insert(pick(self.seed, "extra-position", len(entries) + 1), (c["name"], bnd))
                b = dict(entries)
            else:
                b[c["name"]] = bnd
            if c.get("ramped"):
                ramp_bc[c["name"]] = bnd
        return b, ramp_bc

    def _custom_boundary(self, c):
        fld = self.field[c.get("field", 0)]
        fmesh = fld.region.mesh
        kw = {}
        bpts = fmesh.points
        if (self.doc["mesh"].get("extra_point") or self.doc["mesh"].get("orphan_point")) and fmesh is self.mesh:
            bpts = bpts[:-1]
        for ax, key in enumerate(("fx", "fy", "fz")):
            if key in c:
                v = c[key]
                if v == "min":
                    v = float(bpts[:, ax].min())
                elif v == "max":
                    v = float(bpts[:, ax].max())
                kw[key] = v
        if "skip" in c:
            kw["skip"] = tuple(c["skip"])
        if "mode" in c:
            kw["mode"] = c["mode"]
        if "points" in c:
            mask = np.zeros(fmesh.npoints, dtype=bool)
            sel = c["points"]
            mask[np.asarray(sel, dtype=int) if isinstance(sel, list) else self._points(sel)] = True
            kw["mask"] = mask
        val = c.get("value", 0.0)
        if isinstance(val, list):
            val = np.asarray(val, dtype=float)
        return api("Boundary", fem.Boundary, self.seed, fld, value=val, **kw)

    def _build_case(self, bc):
        f0 = self.field[0]
        case = bc.get("case", "none")
        ramp_bc = {}
        if case == "none":
            return {}, ramp_bc
        def symflags(v):
            # the same flags as bool, tuple of bool, tuple of int or ndarray (all documented / accepted)
            how = bc.get("sym_type")
            if isinstance(v, bool) or how in (None, "bool"):
                return tuple(v) if isinstance(v, list) else v
            if how == "int":
                return tuple(int(x) for x in v)
            if how == "ndarray-bool":
                return np.array(v, dtype=bool)
            return np.array(v, dtype=int)

        if case == "uniaxial" and self.doc["mesh"].get("translate") and bc.get("sym", True) is True and not bc.get("clamped", False):
            # a translated body: the symmetry planes pass through its corner, not through the origin -
            # the load case is put together from dof.symmetry(x=, y=, z=) and the moved face
            tr = list(self.doc["mesh"]["translate"]) + [0.0, 0.0]
            axis = bc.get("axis", 0)
            b = api("dof.symmetry", fem.dof.symmetry, self.seed, f0, axes=(True, True, True), x=tr[0], y=tr[1], z=tr[2])
            b = dict(b)
            skip = [True] * f0.dim
            skip[axis] = False
            right = float(self.mesh.points[:, axis].max())
            b["move"] = fem.Boundary(f0, skip=tuple(skip), value=0.0, **{("fx", "fy", "fz")[axis]: right})
            ramp_bc["move"] = b["move"]
            return b, ramp_bc
        if case == "uniaxial" and not bc.get("clamped", False) and pick(self.seed, "move-retargeted", 3) == 0:
            # the load case is created for another cross-section (here: a plane that holds no point) and
            # its moved boundary is re-selected afterwards with the public Boundary.apply_mask
            axis = bc.get("axis", 0)
            pts = self.mesh.points
            body = pts[:-1] if (self.doc["mesh"].get("extra_point") or self.doc["mesh"].get("orphan_point")) else pts
            lo_, hi_ = float(body[:, axis].min()), float(body[:, axis].max())
            b, _ = api("dof.uniaxial", fem.dof.uniaxial, self.seed, self.field, clamped=False, axis=axis, sym=symflags(bc.get("sym", True)), move=0.0, right=lo_ + 0.3711 * (hi_ - lo_))
            sel = np.isclose(pts[:, axis], hi_)
            if len(body) < len(pts):
                sel[-1] = False
            b["move"].apply_mask(sel)
            ramp_bc["move"] = b["move"]
            return b, ramp_bc
        if case == "uniaxial":
            b, _ = api("dof.uniaxial", fem.dof.uniaxial, self.seed, self.field, clamped=bc.get("clamped", False), axis=bc.get("axis", 0), sym=symflags(bc.get("sym", True)), move=0.0)
            ramp_bc["move"] = b["move"]
            return b, ramp_bc
        if case == "biaxial":
            axes = tuple(bc.get("axes", (0, 1)))
            b, _ = api("dof.biaxial", fem.dof.biaxial, self.seed, self.field, clampes=tuple(bc.get("clampes", (False, False))), moves=(0.0, 0.0), sym=symflags(bc.get("sym", True)), axes=axes)
            ramp_bc["move"] = b[f"move-right-{axes[0]}"]
            ramp_bc["move2"] = b[f"move-right-{axes[1]}"]
            return b, ramp_bc
        if case == "shear":
            b, _ = api("dof.shear", fem.dof.shear, self.seed, self.field, moves=(0.0, 0.0, 0.0), sym=bc.get("sym", True))
            ramp_bc["move"] = b["move"]
            return b, ramp_bc
        if case == "patch":
            # all points on the bounding box are prescribed with an affine displacement
            pts = self.mesh.points
            lo, hi = pts.min(0), pts.max(0)
            tol = 1e-9 * (hi - lo).max()
            onb = np.any((np.abs(pts - lo) < tol) | (np.abs(pts - hi) < tol), axis=1)
            v0 = 0.0 if bc.get("init") == "scalar" else np.zeros((int(onb.sum()), f0.dim))
            b = {"patch": fem.Boundary(f0, mask=onb, value=v0)}
            self.patch_points = np.arange(self.mesh.npoints)[onb]
            ramp_bc["patch"] = b["patch"]
            return b, ramp_bc
        if case == "custom":
            b = {}
            for c in bc["list"]:
                b[c["name"]] = self._custom_boundary(c)
                if c.get("ramped"):
                    ramp_bc[c["name"]] = b[c["name"]]
            return b, ramp_bc
        raise ValueError(case)

    # -- steps ---------------------------------------------------------------------------
    def ramp_value(self, r, i):
        """Value object handed to `update()` for ramp entry r at substep i."""
        tgt = r["target"]
        if tgt == "bc:patch":
            H = np.asarray(r["H"], dtype=float)
            X = self.mesh.points[self.patch_points]
            v = float(r["values"][i]) * (X @ H.T)
            # the same numbers in column-major memory layout (e.g. built as np.array([ux, uy]).T)
            return np.asfortranarray(v) if pick(self.doc.get("seed", 0), "patch-forder", 3) == 0 else v
        v = r["values"][i]
        if isinstance(v, list):
            v = np.asarray(v, dtype=float)
            k = int(tgt[5:]) if tgt.startswith("item:") else None
            if k is not None and self.doc["items"][k]["type"] in ("SolidBodyForce", "SolidBodyGravity"):
                v = self._load_vector(v)
            return v
        return v

    def _build_step(self, s):
        items = [self.items[k] for k in s.get("items", range(len(self.items)))]
        if pick(self.seed, "items-order", 4) == 0 and getattr(items[-1], "field", None) is self.field:
            # loads before bodies, bodies swapped: the sum does not care (documented: without x0 the
            # unknowns are the field of the FIRST item, so that one must carry the model's container)
            items = items[::-1]
        ramp = {}
        for r in s.get("ramp", []):
            tgt = r["target"]
            n = len(r["values"])
            vals = [self.ramp_value(r, i) for i in range(n)]
            if tgt.startswith("bc:"):
                obj = self.ramp_bc[tgt[3:]]
            else:
                obj = self.items[int(tgt[5:])]
            if tgt == "bc:patch":
                if all(v.flags.f_contiguous and not v.flags.c_contiguous for v in vals):
                    # one table whose rows are column-major (npoints, dim) views
                    vals = np.ascontiguousarray(np.asarray([v.T for v in vals])).transpose(0, 2, 1)
                else:
                    vals = np.asarray(vals)
            elif all(np.isscalar(v) for v in vals):
                vals = np.asarray(vals, dtype=float)
            elif all(isinstance(v, np.ndarray) for v in vals) and len({v.shape for v in vals}) == 1:
                vals = np.asarray(vals, dtype=float)  # one table, a row per substep
            ramp[obj] = vals
        if self.doc.get("manual_bc_ramp") and any(not r_["target"].startswith("bc:") for r_ in s.get("ramp", [])) and any(r_["target"].startswith("bc:") for r_ in s.get("ramp", [])):
            # the step ramps its load items only; the caller moves the boundaries itself between the
            # substeps (Boundary.update from the job callback / a hand-written loop) - same values, same order
            j_ = len(self.__dict__.setdefault("manual_ramps", {}))
            self.manual_ramps[j_] = [(obj_, v_) for obj_, v_ in ramp.items() if isinstance(obj_, fem.Boundary)]
            ramp = {obj_: v_ for obj_, v_ in ramp.items() if not isinstance(obj_, fem.Boundary)}
        elif self.doc.get("manual_bc_ramp"):
            self.__dict__.setdefault("manual_ramps", {})[len(self.__dict__.get("manual_ramps", {}))] = []
        if len(ramp) > 1 and pick(self.seed, "ramp-order", 3) == 0:
            ramp = dict(reversed(list(ramp.items())))
        bnames = s.get("boundaries")
        if bnames is None:
            bounds = self.boundaries
        else:
            bounds = {k: self.boundaries[k] for k in bnames}
        if ramp and pick(self.seed, "shared-ramp-dict", 3) == 0:
            # the caller builds all its steps from ONE dictionary object that it refills in between
            shared = self.__dict__.setdefault("_shared_ramp", {})
            shared.clear()
            shared.update(ramp)
            ramp = shared
        return api("Step", fem.Step, self.seed, items, ramp=ramp if ramp else None, boundaries=bounds)

    def apply_ramp(self, step_index, substep):
        """Put ramped boundaries and items of step `step_index` at `substep` (for forks)."""
        s = self.doc["steps"][step_index]
        for r in s.get("ramp", []):
            tgt = r["target"]
            v = self.ramp_value(r, substep)
            if tgt.startswith("bc:"):
                self.ramp_bc[tgt[3:]].update(v)
            else:
                self.items[int(tgt[5:])].update(v)

    # -- state ----------------------------------------------------------------------------
    def values(self):
        return [f.values.copy() for f in self.field.fields]

    def set_values(self, vals):
        for f, v in zip(self.field.fields, vals):
            f.values = np.array(v, dtype=float, copy=True).reshape(f.values.shape)
        for it in self.items:
            fld = getattr(it, "field", None)
            if fld is not None and len(fld.fields) == len(self.field.fields):
                fld.link(self.field)
            elif fld is not None:
                # boundary-region fields share the displacement values only
                fld.fields[0].values = self.field.fields[0].values

    def set_vector(self, x):
        x = np.asarray(x, dtype=float)
        vals = np.split(x, self.field.offsets)
        self.set_values([v.reshape(f.values.shape) for v, f in zip(vals, self.field.fields)])

    def vector(self):
        return np.concatenate([f.values.ravel() for f in self.field.fields])

    def durable(self, with_state=True):
        d = {"values": self.values(), "statevars": [], "state": []}
        for it in self.items:
            res = getattr(it, "results", None)
            sv = getattr(res, "statevars", None)
            d["statevars"].append(None if sv is None else np.array(sv, copy=True))
            st = getattr(res, "state", None)
            if st is not None and with_state:
                d["state"].append({"p": st.p.copy(), "J": st.J.copy(), "u": st.u.copy(), "F": [a.copy() for a in st.F]})
            else:
                d["state"].append(None)
        return d

    def load(self, d):
        self.set_values(d["values"])
        for it, sv, st in zip(self.items, d["statevars"], d["state"]):
            res = getattr(it, "results", None)
            if res is None:
                continue
            if sv is not None and getattr(res, "statevars", None) is not None:
                res.statevars = np.array(sv, copy=True)
            if st is not None:
                s = res.state
                s.p = st["p"].copy()
                s.J = st["J"].copy()
                s.u = st["u"].copy()
                s.F = tuple(a.copy() for a in st["F"])
                res.kinematics = s.F


def ref_fun_items(world, items, parallel=False):
    """Independent statement of what Newton sums: sum_i multiplier_i * vector_i(field), each
    padded to the size of the whole container (multipliers are taken from the scenario
    document for solid bodies, from the item for load items with a fixed -1)."""
    field = world.field
    n = int(sum(f.values.size for f in field.fields))
    out = np.zeros(n)
    for item in items:
        fld = item.field
        if len(fld.fields) == len(field.fields):
            fld.link(field)
        else:
            fld.fields[0].values = field.fields[0].values
        kw = {"parallel": True} if parallel else {}
        v = item.assemble.vector(field=item.field, **kw).toarray().ravel()
        m = world.multiplier_of(item)
        out[: v.size] += m * v
    return out


def ref_jac_items(world, items, parallel=False):
    field = world.field
    n = int(sum(f.values.size for f in field.fields))
    out = np.zeros((n, n))
    for item in items:
        kw = {"parallel": True} if parallel else {}
        K = item.assemble.matrix(**kw).toarray()
        m = world.multiplier_of(item)
        if K.shape[0] > n or K.shape[1] > n:
            from .kernel import Misbehaviour

            raise Misbehaviour("item-shape", f"{type(item).__name__}.assemble.matrix() has shape {K.shape}, the model has {n} unknowns", site=f"{type(item).__name__}.matrix.shape")
        out[: K.shape[0], : K.shape[1]] += m * K
    return out


def expected_dof0(world, step_index):
    """Independent model of the prescribed set: unknowns selected by the step's boundaries plus, per
    field, all unknowns of the points the mesh lists as points without cells (the caller may have
    edited that list)."""
    out = set(expected_prescribed(world, step_index).keys())
    off = 0
    for f in world.field.fields:
        for p in np.asarray(f.region.mesh.points_without_cells, dtype=int).ravel():
            for c in range(f.dim):
                out.add(off + f.dim * int(p) + c)
        off += f.values.size
    return out


def expected_prescribed_from(world, boundaries):
    """As expected_prescribed, for an explicit boundary dictionary."""

    class _S:
        pass

    s = _S()
    s.boundaries = boundaries
    saved = world.steps
    world.steps = [s]
    try:
        return expected_prescribed(world, 0)
    finally:
        world.steps = saved


def expected_prescribed(world, step_index):
    """Independent model of the prescribed values: {global unknown: value} from the public
    attributes of the step's Boundary objects (dof, value, field) and the container layout
    (fields laid out consecutively). Later boundaries of the dictionary override earlier."""
    fields = world.field.fields
    sizes = [f.values.size for f in fields]
    starts = np.concatenate([[0], np.cumsum(sizes)[:-1]])
    out = {}
    for b in world.steps[step_index].boundaries.values():
        k = [i for i, f in enumerate(fields) if f is b.field]
        if not k and getattr(world, "top", None) is not None:
            k = [i for i, f in enumerate(world.top.fields) if f is b.field]
        if len(k) != 1:
            raise AssertionError("boundary field not in container")
        start = int(starts[k[0]])
        v = b.value
        if isinstance(v, np.ndarray):
            if v.size != b.dof.size:
                v = np.broadcast_to(v.reshape(1, -1) if v.ndim == 1 else v, (b.points.size, v.shape[-1]))
            v = np.asarray(v, dtype=float).ravel()
        else:
            v = np.full(b.dof.size, float(v))
        for d, val in zip(b.dof.ravel(), v):
            out[start + int(d)] = float(val)
    return out


def fork(world, durable=None, step_index=None, substep=None, umat_wrap=None):
    """A second world from the same document carrying only durable state (cold caches)."""
    w = World(copy.deepcopy(world.doc), umat_wrap=umat_wrap)
    if step_index is not None:
        w.apply_ramp(step_index, substep)
    w.load(durable if durable is not None else world.durable())
    return w
