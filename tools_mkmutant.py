"""Create a mutant patch: tools_mkmutant.py <name> <file relative to /repo> <<< JSON [[old,new],...]
The patch is a unified diff applicable with `git -C /repo apply`."""
import difflib, json, sys
name, rel = sys.argv[1], sys.argv[2]
pairs = json.load(sys.stdin)
src = open(f"/repo/{rel}").read()
new = src
for old, rep in pairs:
    assert new.count(old) == 1, (old, new.count(old))
    new = new.replace(old, rep)
diff = "".join(difflib.unified_diff(src.splitlines(True), new.splitlines(True), f"a/{rel}", f"b/{rel}"))
open(f"/verif/mutants/{name}.patch", "a" if "--append" in sys.argv else "w").write(diff)
print(diff)
